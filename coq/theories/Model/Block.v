(* Model of mistletoe/block_tokenizer.py and block_token.py: the block phase.
   tokenize_block turns lines into a buffer of PRE-TOKENS (what the read()
   methods return, with the line number captured by the dispatch loop);
   containers tokenize their own content eagerly, exactly as Quote.read /
   ListItem.read do.  The inline phase (token constructors) is Model/Build.v.

   A reader is modelled as a function of the lines that are still unread; it
   returns its payload and HOW MANY lines it consumed (every backstep() in the
   code undoes part of the reader's own consumption).  start() and read() are
   fused: the class-level scratch attributes (Heading.level/content,
   CodeFence._open_info, HtmlBlock._end_cond) are written by the start() call
   that the dispatch loop makes immediately before read(); this assumption of
   the model is watched by the history correspondence (C11).
   Paragraph.parse_setext is the parameter `setext`. *)
From Coq Require Import ZArith List Bool.
From Mistletoe Require Import Base.Sx Base.PyStr Base.PyText Gen.GenTables Re.ReMatch Gen.GenRegex Gen.GenConfig
     Model.CoreTokens Model.Unescape.
Import ListNotations.
Local Open Scope Z_scope.

Definition rmatch (r : re) (fl : flags) (line : str) : option mst := match_here fl r (start_at [] line).
Definition gtxt (m : mst) (g : nat) : str := match group_text m g with Some t => t | None => [] end.
Definition gset (m : mst) (g : nat) : bool := match group_span m g with Some _ => true | None => false end.
Definition nlines (n : nat) : Z := Z.of_nat n.

(* what read() returns, with the line number of the block *)
Inductive pre :=
| PBlockCode (ln : Z) (lines : list str)
| PHeading (ln : Z) (level : Z) (content closing : str)
| PQuote (ln : Z) (entries : list pre)
| PCodeFence (ln : Z) (lines : list str) (indent : Z) (leader info lang : str)
| PThematic (ln : Z) (lines : list str)
| PList (ln : Z) (items : list pre)
| PItem (ln : Z) (entries : list pre) (loose : bool) (indentation prepend : Z) (leader : str)
| PTable (ln : Z) (lines : list str)
| PFootnote (ln : Z) (defs : list (str * str * str * str * str))   (* label, dest, title, dest_type, title_delimiter *)
| PParagraph (ln : Z) (lines : list str)
| PSetext (ln : Z) (lines : list str)
| PHtmlBlock (ln : Z) (lines : list str)
| PBlankLine (ln : Z).

(* ------------------------------------------------------------------ *)
(* start() predicates *)

Definition tabs_to_spaces_once (line : str) : str := replace_first [9] $"    " line.

Definition blockcode_start (line : str) : bool :=
  startswith $"    " (tabs_to_spaces_once line) && negb (is_blank line).

Definition heading_start (line : str) : option (Z * str * str) :=
  match rmatch re_block_token_Heading_pattern fl_block_token_Heading_pattern line with
  | None => None
  | Some m =>
    let level := slen (gtxt m 1) in
    let content := strip (gtxt m 2) in
    let content := match content with [] => [] | _ => if forallb (Z.eqb 35) content then [] else content end in
    Some (level, content, strip (gtxt m 3))
  end.

Definition quote_start (line : str) : bool :=
  let stripped := lstrip_set [32] line in
  if 3 <? slen line - slen stripped then false else startswith [62] stripped.

Definition codefence_start (line : str) : option (Z * str * str * str) :=
  match rmatch re_block_token_CodeFence_pattern fl_block_token_CodeFence_pattern line with
  | None => None
  | Some m =>
    let leader := gtxt m 2 in
    let info := gtxt m 3 in
    if (char_at leader 0 =? 96) && mem 96 info then None
    else Some (slen (gtxt m 1), leader, info, gtxt m 4)
  end.

Definition thematic_start (line : str) : bool :=
  match rmatch re_block_token_ThematicBreak_pattern fl_block_token_ThematicBreak_pattern line with Some _ => true | None => false end.

Definition list_start (line : str) : bool :=
  match rmatch re_block_token_List_pattern fl_block_token_List_pattern line with Some _ => true | None => false end.

Definition table_start (line : str) : bool := mem 124 line.

Definition footnote_start (line : str) : bool := startswith [91] (lstrip line).

Definition paragraph_start (line : str) : bool := negb (is_blank line).

Definition blankline_start (line : str) : bool :=
  match rmatch re_markdown_renderer_BlankLine_pattern fl_markdown_renderer_BlankLine_pattern line with Some _ => true | None => false end.

(* HtmlBlock.start: (kind 1..7, end condition) *)
Definition htmlblock_start (line : str) : option (Z * option str) :=
  let stripped := lstrip line in
  if 4 <=? slen line - slen stripped then None
  else match rmatch re_block_token_HtmlBlock_multiblock fl_block_token_HtmlBlock_multiblock stripped with
       | Some m => Some (1, Some ($"</" ++ casefold (gtxt m 1) ++ $">"))
       | None =>
         if startswith $"<!--" stripped then Some (2, Some $"-->")
         else if startswith $"<?" stripped then Some (3, Some $"?>")
         else if startswith $"<!" stripped && is_upper_c (char_at stripped 2) then Some (4, Some $">")
         else if startswith $"<![CDATA[" stripped then Some (5, Some $"]]>")
         else match rmatch re_block_token_HtmlBlock_predefined fl_block_token_HtmlBlock_predefined stripped with
              | Some m => if str_in (casefold (gtxt m 1)) html_tags then Some (6, None)
                          else match rmatch re_block_token_HtmlBlock_custom_tag fl_block_token_HtmlBlock_custom_tag stripped with
                               | Some _ => Some (7, None) | None => None end
              | None => match rmatch re_block_token_HtmlBlock_custom_tag fl_block_token_HtmlBlock_custom_tag stripped with
                        | Some _ => Some (7, None) | None => None end
              end
       end.

(* ------------------------------------------------------------------ *)
(* ListItem.parse_marker / parse_continuation *)

Definition parse_marker (line : str) : option (Z * Z * str * str) :=   (* indentation, prepend, leader, content *)
  match rmatch re_block_token_ListItem_pattern fl_block_token_ListItem_pattern line with
  | None => None
  | Some m =>
    let indentation := slen (gtxt m 1) in
    let g0 := take (pos m) line in
    let prepend := slen (expandtabs4 g0) in
    let leader := gtxt m 2 in
    let content := drop (pos m) line in
    let end2 := match group_span m 2 with Some (_, b) => b | None => 0 end in
    let n_spaces := prepend - end2 in
    if 4 <? n_spaces then Some (indentation, prepend - (n_spaces - 1), leader, repeat 32 (Z.to_nat (n_spaces - 1)) ++ content)
    else Some (indentation, prepend, leader, content)
  end.

Definition parse_continuation (line : str) (prepend : Z) : option str :=
  match rmatch re_block_token_ListItem_continuation_pattern fl_block_token_ListItem_continuation_pattern line with
  | None => None
  | Some m =>
    if str_eqb (gtxt m 2) [10] then Some [10]
    else let expanded := expandtabs4 (gtxt m 1) in
         if prepend <=? slen expanded then Some (drop prepend expanded ++ gtxt m 2) else None
  end.

Definition list_interrupts (line : str) : bool :=
  match parse_marker line with
  | Some (_, _, leader, content) =>
    if negb (is_blank content) then
      negb (is_decimal_c (char_at leader 0)) || str_eqb leader $"1." || str_eqb leader $"1)"
    else false
  | None => false
  end.

(* Table.read on the unread lines: the table's lines, or None *)
Fixpoint take_while_pipe (l : list str) : list str :=
  match l with x :: r => if mem 124 x then x :: take_while_pipe r else [] | [] => [] end.

Definition table_read (after : list str) : option (list str) :=
  match after with
  | [] => None
  | first :: rest =>
    let buf := first :: take_while_pipe rest in
    match buf with
    | _ :: second :: _ =>
      match fullmatch_here fl_block_token_Table_delimiter_row_pattern re_block_token_Table_delimiter_row_pattern (start_at [] second) with
      | Some _ => Some buf
      | None => None
      end
    | _ => None
    end
  end.

(* check_interrupts_paragraph(lines) of a token type, given the unread lines (peek = head) *)
Definition interrupts (k : block_kind) (after : list str) : bool :=
  match after with
  | [] => false
  | line :: _ =>
    match k with
    | BK_Heading => match heading_start line with Some _ => true | None => false end
    | BK_Quote => quote_start line
    | BK_CodeFence => match codefence_start line with Some _ => true | None => false end
    | BK_ThematicBreak => thematic_start line
    | BK_List => list_interrupts line
    | BK_Table => match table_read after with Some _ => true | None => false end   (* Table.interrupt_paragraph = True *)
    | BK_HtmlBlock => match htmlblock_start line with Some (k', _) => negb (k' =? 7) | None => false end
    | _ => false
    end
  end.

Definition has_interrupt (k : block_kind) : bool :=
  match k with
  | BK_Heading | BK_Quote | BK_CodeFence | BK_ThematicBreak | BK_List | BK_Table | BK_HtmlBlock => true
  | _ => false
  end.

Definition kind_eqb (a b : block_kind) : bool :=
  match a, b with
  | BK_BlockCode, BK_BlockCode | BK_Heading, BK_Heading | BK_Quote, BK_Quote | BK_CodeFence, BK_CodeFence
  | BK_ThematicBreak, BK_ThematicBreak | BK_List, BK_List | BK_Table, BK_Table | BK_Footnote, BK_Footnote
  | BK_Paragraph, BK_Paragraph | BK_HtmlBlock, BK_HtmlBlock | BK_BlankLine, BK_BlankLine
  | BK_LinkReferenceDefinitionBlock, BK_LinkReferenceDefinitionBlock => true
  | _, _ => false
  end.

(* any(t.check_interrupts_paragraph(lines) for t in breaking_tokens), breaking = types with the method, minus `except` *)
Definition any_interrupt (types : list block_kind) (except : block_kind) (after : list str) : bool :=
  existsb (fun k => has_interrupt k && negb (kind_eqb k except) && interrupts k after) types.

(* ------------------------------------------------------------------ *)
(* leaf readers: (payload lines, number of lines consumed) *)

(* BlockCode.strip *)
Fixpoint blockcode_strip_aux (s : str) (count : Z) : option str :=   (* Some rest when a tab / 4 spaces were removed *)
  match s with
  | [] => None
  | c :: r =>
    if c =? 9 then Some r
    else if c =? 32 then (if count + 1 =? 4 then Some r else blockcode_strip_aux r (count + 1))
    else None
  end.
Definition blockcode_strip (s : str) : str := match blockcode_strip_aux s 0 with Some r => r | None => s end.

(* BlockCode.read: buffer (reversed), lines taken, trailing '\n' lines *)
Fixpoint blockcode_loop (after : list str) (buf_rev : list str) (taken : nat) (trailing : nat) : list str * nat :=
  match after with
  | [] => (rev (skipn trailing buf_rev), (taken - trailing)%nat)
  | line :: r =>
    if is_blank line then
      blockcode_loop r ((if slen line <? 5 then lstrip_set [32] line else drop 4 line) :: buf_rev) (S taken)
                     (if str_eqb line [10] then S trailing else O)
    else if negb (startswith $"    " (tabs_to_spaces_once line)) then (rev (skipn trailing buf_rev), (taken - trailing)%nat)
    else blockcode_loop r (blockcode_strip line :: buf_rev) (S taken) O
  end.
Definition blockcode_read (after : list str) : list str * nat := blockcode_loop after [] O O.

(* CodeFence.read after the opening line: body lines and number consumed (closing fence included) *)
Fixpoint fence_loop (after : list str) (indent : Z) (leader : str) (buf_rev : list str) (taken : nat) : list str * nat :=
  match after with
  | [] => (rev buf_rev, taken)
  | line :: r =>
    let stripped := lstrip_set [32] line in
    let diff := slen line - slen stripped in
    if startswith leader stripped && single_word stripped && (diff <? 4) then (rev buf_rev, S taken)
    else let out := if indent <? diff then repeat 32 (Z.to_nat (diff - indent)) ++ stripped else stripped in
         fence_loop r indent leader (out :: buf_rev) (S taken)
  end.

(* HtmlBlock.read *)
Fixpoint html_loop (after : list str) (end_cond : option str) (buf_rev : list str) (taken : nat) : list str * nat :=
  match after with
  | [] => (rev buf_rev, taken)
  | line :: r =>
    match end_cond with
    | Some e => if contains e (casefold line) then (rev (line :: buf_rev), S taken)
                else html_loop r end_cond (line :: buf_rev) (S taken)
    | None => if is_blank line then (rev buf_rev, taken)      (* pop + backstep *)
              else html_loop r end_cond (line :: buf_rev) (S taken)
    end
  end.

(* Paragraph.read after the first line: Some true = setext heading found *)
Fixpoint para_loop (types : list block_kind) (setext : bool) (after : list str) (buf_rev : list str) (taken : nat)
  : list str * nat * bool :=
  match after with
  | [] => (rev buf_rev, taken, false)
  | line :: r =>
    if is_blank line then (rev buf_rev, taken, false)
    else if any_interrupt types BK_ThematicBreak after then (rev buf_rev, taken, false)
    else if setext && (match rmatch re_block_token_Paragraph_setext_pattern fl_block_token_Paragraph_setext_pattern line with
                       | Some _ => true | None => false end)
         then (rev (line :: buf_rev), S taken, true)
    else if thematic_start line then (rev buf_rev, taken, false)
    else para_loop types setext r (line :: buf_rev) (S taken)
  end.

(* ------------------------------------------------------------------ *)
(* link reference definitions (Footnote.read and its scanners) *)

(* Footnote.match_link_label(string, offset): (start, end, label) *)
Fixpoint fn_label_scan (l : str) (i offset : Z) (start : Z) (escaped : bool) : option (Z * Z) :=
  match l with
  | [] => None
  | c :: r =>
    let continue_ := fun (start' : Z) (esc' : bool) =>
      if (start' =? -1) && negb ((c =? 32) && (i - offset <? 3)) then None else fn_label_scan r (i + 1) offset start' esc' in
    if escaped then continue_ start false
    else if c =? 92 then continue_ start true
    else if c =? 91 then (if start =? -1 then continue_ i false else None)
    else if c =? 93 then Some (start, i)
    else continue_ start false
  end.

Definition fn_match_label (s : str) (offset : Z) : option (Z * Z * str) :=
  match fn_label_scan (drop offset s) offset offset (-1) false with
  | Some (st, en) =>
    let label := substr s (st + 1) en in
    if negb (is_blank label) then Some (st, en + 1, label) else None
  | None => None
  end.

(* Footnote.match_link_dest(string, offset) *)
Fixpoint fn_dest_angle (l : str) (i : Z) (escaped : bool) : option Z :=
  match l with
  | [] => None
  | c :: r =>
    if (c =? 92) && negb escaped then fn_dest_angle r (i + 1) true
    else if (c =? 10) || ((c =? 60) && negb escaped) then None
    else if (c =? 62) && negb escaped then Some i
    else fn_dest_angle r (i + 1) false
  end.

(* returns (end index, final count); the for loop ends by break at whitespace or by exhaustion *)
Fixpoint fn_dest_plain (l : str) (i : Z) (escaped : bool) (count : Z) : option (Z * Z) :=
  match l with
  | [] => Some (i - 1, count)                    (* exhausted: i keeps its last value *)
  | c :: r =>
    if (c =? 92) && negb escaped then fn_dest_plain r (i + 1) true count
    else if is_ws c then Some (i, count)
    else if negb escaped then
      fn_dest_plain r (i + 1) false (if c =? 40 then count + 1 else if c =? 41 then count - 1 else count)
    else if is_control_char c then None
    else fn_dest_plain r (i + 1) false count
  end.

Definition fn_match_dest (s : str) (offset : Z) : option (Z * Z * str) :=
  if char_at s offset =? 60 then
    match fn_dest_angle (drop (offset + 1) s) (offset + 1) false with
    | Some i => Some (offset, i + 1, substr s (offset + 1) i)
    | None => None
    end
  else match fn_dest_plain (drop offset s) offset false 0 with
       | Some (i, count) => if negb (count =? 0) then None else Some (offset, i, substr s offset i)
       | None => None
       end.

Definition fn_match_title (s : str) (offset : Z) : option (Z * Z * str) :=
  if offset =? slen s then None
  else let c := char_at s offset in
       let closing := if c =? 34 then 34 else if c =? 39 then 39 else if c =? 40 then 41 else -1 in
       if closing =? -1 then None
       else match title_scan (drop (offset + 1) s) (offset + 1) closing false with
            | Some i => Some (offset, i + 1, substr s (offset + 1) i)
            | None => None
            end.

(* the `while line_end < len(string)` loop after a title *)
Fixpoint fn_line_end (l : str) (i : Z) : option Z :=     (* Some index of the '\n' that ends the line *)
  match l with
  | [] => None
  | c :: r => if c =? 10 then Some i else if is_ws c then fn_line_end r (i + 1) else None
  end.

Definition eol_between (s : str) (a b : Z) : option Z :=
  match find_sub [10] (substr s a b) 0 with Some p => Some (a + p + 1) | None => None end.

(* Footnote.match_reference(string, offset): (new offset, (label, dest, title, dest_type, title_delimiter)) *)
Definition match_reference (s : str) (offset : Z) : option (Z * (str * str * str * str * str)) :=
  match fn_match_label s offset with
  | None => None
  | Some (_, label_end, label) =>
    if negb (follows s (label_end - 1) 58) then None
    else
      let dest_start := shift_whitespace s (label_end + 1) in
      if dest_start =? slen s then None
      else match fn_match_dest s dest_start with
           | None => None
           | Some (_, dest_end, dest) =>
             let dest_type := if char_at s dest_start =? 60 then $"angle_uri" else $"uri" in
             let title_start := shift_whitespace s dest_end in
             if (title_start =? dest_end) && (title_start <? slen s) then None
             else
               let no_title := match eol_between s dest_end title_start with
                               | Some off => Some (off, (label, dest, [], dest_type, []))
                               | None => None
                               end in
               match fn_match_title s title_start with
               | None => no_title
               | Some (_, title_end, title) =>
                 match fn_line_end (drop title_end s) title_end with
                 | Some le => Some (le + 1, (label, dest, title, dest_type,
                                             if title_start <? title_end then [char_at s title_start] else []))
                 | None => no_title
                 end
               end
           end
  end.

Fixpoint refs_loop (fuel : nat) (s : str) (offset : Z) (acc : list (str * str * str * str * str)) : Z * list (str * str * str * str * str) :=
  match fuel with
  | O => (offset, acc)
  | S f =>
    if offset <? slen s - 1 then
      match match_reference s offset with
      | Some (off', m) => refs_loop f s off' (acc ++ [m])
      | None => (offset, acc)
      end
    else (offset, acc)
  end.

Fixpoint take_nonblank (after : list str) : list str :=
  match after with line :: r => if is_blank line then [] else line :: take_nonblank r | [] => [] end.

(* Footnote.read: (definitions, lines consumed); no definition -> None *)
Definition footnote_read (after : list str) : option (list (str * str * str * str * str) * nat) :=
  let buf := take_nonblank after in
  let s := concat buf in
  let '(offset, defs) := refs_loop (S (length s)) s 0 [] in
  match defs with
  | [] => None
  | _ => let back := if offset <? slen s - 1 then count_char 10 (drop offset s) else 0 in
         Some (defs, (length buf - Z.to_nat back)%nat)
  end.

(* Footnote.append_footnotes(matches, root): first definition of a label wins *)
Definition append_footnotes (defs : list (str * str * str * str * str)) (fn : footnotes) : footnotes :=
  fold_left (fun acc d =>
               match d with
               | (label, dest, title, _, _) =>
                 let key := normalize_label label in
                 match fn_get key acc with
                 | Some _ => acc
                 | None => acc ++ [(key, (escape_strip_std (strip dest), escape_strip_std title))]
                 end
               end) defs fn.

(* ------------------------------------------------------------------ *)
(* Quote.convert_leading_tabs *)
Fixpoint leading_ws_count (s : str) (i count : Z) : Z * Z :=      (* (index of first non-blank or last index, count) *)
  match s with
  | [] => (i - 1, count)
  | c :: r => if c =? 9 then leading_ws_count r (i + 1) (count + 4)
              else if c =? 32 then leading_ws_count r (i + 1) (count + 1)
              else (i, count)
  end.
Definition convert_leading_tabs (s : str) : str :=
  let s1 := replace_first [62; 9] $"   " s in
  let '(i, count) := leading_ws_count s1 0 0 in
  if i =? 0 then s1 else [62] ++ repeat 32 (Z.to_nat count) ++ drop i s1.

(* ------------------------------------------------------------------ *)
(* the mutually recursive part: the dispatch loop and the container readers.
   `fuel` bounds the nesting depth plus the number of loop iterations. *)

(* The process-global state the block phase reads AND writes is Paragraph.parse_setext.
   The footnotes of the document under construction are only ever APPENDED to during
   the block phase (Footnote.read -> append_footnotes) and never read, so they are not
   threaded: they are the fold of append_footnotes over the definitions of the
   pre-token tree in document order (defs_of, below); the correspondence run compares
   the resulting map, order included, with Document.footnotes. *)
Record pstate := mkPs { ps_setext : bool }.

Section Tokenize.
  Variable types : list block_kind.

  (* Quote.read: the stripped line buffer and the number of lines consumed *)
  Fixpoint quote_loop (after : list str) (buf_rev : list str) (taken : nat) (in_fence in_code blank : bool) : list str * nat :=
    match after with
    | [] => (rev buf_rev, taken)
    | next_line :: r =>
      if is_blank next_line then (rev buf_rev, taken)
      else if any_interrupt types BK_Quote after then (rev buf_rev, taken)
      else
        let stripped := convert_leading_tabs (lstrip next_line) in
        if char_at stripped 0 =? 62 then
          let prepend := if char_at stripped 1 =? 32 then 2 else 1 in
          let st := drop prepend stripped in
          quote_loop r (st :: buf_rev) (S taken)
                     (match codefence_start st with Some _ => true | None => false end) (blockcode_start st) (is_blank st)
        else if in_fence || in_code || blank then (rev buf_rev, taken)
        else quote_loop r (next_line :: buf_rev) (S taken) in_fence in_code blank
    end.

  Definition quote_lines (after : list str) : list str * nat :=
    match after with
    | [] => ([], O)
    | first :: r =>
      let line0 := match snd (split_once 62 (convert_leading_tabs (lstrip first))) with Some t => t | None => [] end in
      let line := match line0 with 32 :: t => t | _ => line0 end in
      quote_loop r [line] 1%nat
                 (match codefence_start line with Some _ => true | None => false end) (blockcode_start line) (is_blank line)
    end.

  Definition same_marker_type (leader other : str) : bool :=
    if slen leader =? 1 then str_eqb leader other
    else all_decimal (removelast leader) && all_decimal (removelast other) && (last_char leader =? last_char other).

  (* ListItem.read, "unless it's the start of another token": a line that begins a new list item can only be a thematic break instead;
     the other tokens are asked only about a line without a list marker *)
  Definition item_interrupt (after : list str) : bool :=
    match after with
    | next_line :: _ =>
      match parse_marker next_line with
      | Some _ => existsb (fun k => kind_eqb k BK_ThematicBreak) types && thematic_start next_line
      | None => any_interrupt types BK_List after
      end
    | [] => false
    end.

  (* the main loop of ListItem.read: (line buffer, lines consumed, next marker) *)
  Fixpoint item_loop (leader : str) (after : list str) (prepend : Z) (buf_rev : list str) (taken : nat) (newlines : nat)
    : list str * nat * option (Z * Z * str * str) :=
    let stop_backstep := (rev (skipn newlines buf_rev), (match newlines with O => taken | _ => taken - 1 end)%nat, None) in
    match after with
    | [] => stop_backstep
    | next_line :: r =>
      match parse_continuation next_line prepend with
      | Some cont => item_loop leader r prepend (cont :: buf_rev) (S taken) (if str_eqb cont [10] then S newlines else O)
      | None =>
        if item_interrupt after then stop_backstep
        else match parse_marker next_line with
             | Some ((_, _, other, _) as mk) =>
               (* a marker of another list type ends the list: the blank lines before it are not the item's *)
               if same_marker_type leader other then (rev buf_rev, taken, Some mk) else stop_backstep
             | None =>
               match newlines with
               | O => item_loop leader r prepend (next_line :: buf_rev) (S taken) (if str_eqb next_line [10] then 1%nat else O)
               | _ => stop_backstep
               end
             end
      end
    end.

  Fixpoint count_blank (after : list str) : nat :=
    match after with line :: r => if is_blank line then S (count_blank r) else O | [] => O end.

  (* open recursion: `rec` is tokenize_block one nesting level down *)
  Section Level.
    Variable rec : list str -> Z -> pstate -> list pre * bool * pstate.

    (* ListItem.read(lines, prev_marker): item, lines consumed, next marker, state *)
    Definition read_item (after : list str) (ln : Z) (prev : option (Z * Z * str * str)) (st : pstate)
      : pre * nat * option (Z * Z * str * str) * pstate :=
      match after with
      | [] => (PItem ln [] false 0 0 [], O, None, st)
      | line :: r =>
        let mk := match prev with Some m => Some m | None => parse_marker line end in
        match mk with
        | None => (PItem ln [] false 0 0 [], 1%nat, None, st)
        | Some (indentation, prepend, leader, content) =>
          if is_blank content then
            let prepend' := indentation + slen leader + 1 in
            let nb := count_blank r in
            match nb with
            | S _ =>
              let rest := skipn nb r in
              (PItem ln [] true indentation prepend' leader, S nb,
               match rest with nl :: _ => parse_marker nl | [] => None end, st)
            | O =>
              let '(buf, taken, next_marker) := item_loop leader r prepend' [] 1%nat O in
              let '(entries, loose, st') := rec buf (ln + 1) st in
              (PItem ln entries loose indentation prepend' leader, taken, next_marker, st')
            end
          else
            let '(buf, taken, next_marker) := item_loop leader r prepend [content] 1%nat O in
            let '(entries, loose, st') := rec buf ln st in
            (PItem ln entries loose indentation prepend leader, taken, next_marker, st')
        end
      end.

    (* List.read *)
    Fixpoint read_list (n : nat) (after : list str) (ln : Z) (leader : option str) (next_marker : option (Z * Z * str * str))
             (items_rev : list pre) (consumed : nat) (st : pstate) {struct n} : list pre * nat * pstate :=
      match n with
      | O => (rev items_rev, consumed, st)
      | S n' =>
        let '(item, taken, nm, st') := read_item after ln next_marker st in
        let item_leader := match item with PItem _ _ _ _ _ l => l | _ => [] end in
        let ok := match leader with None => true | Some l => same_marker_type l item_leader end in
        if negb ok then (rev items_rev, consumed, st)         (* lines.set_pos(anchor): the item is not taken *)
        else
          let leader' := match leader with None => Some item_leader | Some _ => leader end in
          match nm with
          | None => (rev (item :: items_rev), (consumed + taken)%nat, st')
          | Some _ => read_list n' (skipn taken after) (ln + nlines taken) leader' nm (item :: items_rev) (consumed + taken)%nat st'
          end
      end.

    (* token_type.start(line) and, if it holds, token_type.read(lines): payload, lines consumed, state *)
    Definition start_read (k : block_kind) (after : list str) (ln : Z) (st : pstate) : option (pre * nat * pstate) :=
      match after with
      | [] => None
      | line :: rest =>
        match k with
        | BK_BlockCode =>
          if blockcode_start line then let '(buf, c) := blockcode_read after in Some (PBlockCode ln buf, c, st) else None
        | BK_Heading =>
          match heading_start line with Some (lv, ct, cl) => Some (PHeading ln lv ct cl, 1%nat, st) | None => None end
        | BK_Quote =>
          if quote_start line then
            let '(buf, c) := quote_lines after in
            (* Paragraph.parse_setext = False ... = True around the nested call *)
            let '(entries, _, _) := rec buf ln (mkPs false) in
            Some (PQuote ln entries, c, mkPs true)
          else None
        | BK_CodeFence =>
          match codefence_start line with
          | Some (indent, leader, info, lang) =>
            let '(buf, c) := fence_loop rest indent leader [] 1%nat in
            Some (PCodeFence ln buf indent leader info lang, c, st)
          | None => None
          end
        | BK_ThematicBreak => if thematic_start line then Some (PThematic ln [line], 1%nat, st) else None
        | BK_List =>
          if list_start line then
            let '(items, c, st') := read_list (S (length after)) after ln None None [] O st in
            (* last_parse_buffer.loose = len(last_parse_buffer) > 1 and last_parse_buffer.loose *)
            let items' := match rev items with
                          | PItem l e lo i p ld :: before =>
                            rev (PItem l e ((1 <? nlines (length e)) && lo) i p ld :: before)
                          | _ => items
                          end in
            Some (PList ln items', c, st')
          else None
        | BK_Table =>
          if table_start line then
            match table_read after with Some buf => Some (PTable ln buf, length buf, st) | None => None end
          else None
        | BK_Footnote | BK_LinkReferenceDefinitionBlock =>
          if footnote_start line then
            match footnote_read after with
            | Some (defs, c) => Some (PFootnote ln defs, c, st)
            | None => None
            end
          else None
        | BK_Paragraph =>
          if paragraph_start line then
            let '(buf, c, is_setext) := para_loop types (ps_setext st) rest [line] 1%nat in
            Some (if is_setext then PSetext ln buf else PParagraph ln buf, c, st)
          else None
        | BK_HtmlBlock =>
          match htmlblock_start line with
          | Some (_, end_cond) => let '(buf, c) := html_loop after end_cond [] O in Some (PHtmlBlock ln buf, c, st)
          | None => None
          end
        | BK_BlankLine => if blankline_start line then Some (PBlankLine ln, 1%nat, st) else None
        end
      end.

    (* for token_type in token_types: the first one whose start() holds and whose read() returns a result *)
    Fixpoint try_types (ts : list block_kind) (after : list str) (ln : Z) (st : pstate) : option (pre * nat * pstate) :=
      match ts with
      | [] => None
      | k :: ts' => match start_read k after ln st with Some x => Some x | None => try_types ts' after ln st end
      end.

    (* the dispatch loop of tokenize_block *)
    Fixpoint dispatch_loop (n : nat) (after : list str) (ln : Z) (acc_rev : list pre) (loose : bool) (st : pstate) {struct n}
      : list pre * bool * pstate :=
      match n with
      | O => (rev acc_rev, loose, st)
      | S n' =>
        match after with
        | [] => (rev acc_rev, loose, st)
        | _ :: rest =>
          match try_types types after ln st with
          | Some (p, consumed, st') =>
            (* a reader that consumed nothing would spin forever in the code; the model stops (see C01) *)
            match consumed with
            | O => (rev (p :: acc_rev), loose, st')
            | _ => dispatch_loop n' (skipn consumed after) (ln + nlines consumed) (p :: acc_rev) loose st'
            end
          | None => dispatch_loop n' rest (ln + 1) acc_rev true st            (* unmatched newlines *)
          end
        end
      end.
  End Level.

  (* tokenize_block(lines, token_types, start_line); fuel bounds the nesting depth *)
  Fixpoint tokenize_block (fuel : nat) (lines : list str) (start_line : Z) (st : pstate) : list pre * bool * pstate :=
    match fuel with
    | O => ([], false, st)
    | S fuel' => dispatch_loop (tokenize_block fuel') (S (length lines)) lines start_line [] false st
    end.
End Tokenize.

(* the link reference definitions of a pre-token forest, in document order *)
Fixpoint defs_of (p : pre) : list (str * str * str * str * str) :=
  match p with
  | PQuote _ es | PList _ es | PItem _ es _ _ _ _ => flat_map defs_of es
  | PFootnote _ defs => defs
  | _ => []
  end.
Definition footnotes_of (es : list pre) : footnotes := append_footnotes (flat_map defs_of es) [].
