(* Model of mistletoe/core_tokens.py: the scanner for emphasis, links and
   images (find_core_tokens, find_link_image, process_emphasis, match_link_*,
   flanking predicates, Delimiter, MatchObj).  The Python list of mutable
   Delimiter objects is a list of records updated by index. *)
From Coq Require Import ZArith List Bool.
From Mistletoe Require Import Base.Sx Base.PyStr Base.PyText Gen.GenTables Re.ReMatch Gen.GenRegex.
Import ListNotations.
Local Open Scope Z_scope.

Definition is_punct (c : Z) : bool := in_rs punct_ranges c.       (* c in punctuation *)
Definition is_uws (c : Z) : bool := in_rs uws_ranges c.           (* c in unicode_whitespace *)
Definition is_ws (c : Z) : bool := in_rs ws_ranges c.             (* c in whitespace *)

Definition footnotes := list (str * (str * str)).                  (* insertion-ordered dict: label -> (dest, title) *)
Fixpoint fn_get (k : str) (fn : footnotes) : option (str * str) :=
  match fn with [] => None | (k', v) :: r => if str_eqb k k' then Some v else fn_get k r end.

(* ' '.join(text.split()).casefold() *)
Definition normalize_label (text : str) : str := casefold (join [32] (split_ws text)).

(* ---- flanking ---- *)
Definition preceded_by (start : Z) (s : str) (p : Z -> bool) : bool :=
  p (if 0 <? start then char_at s (start - 1) else 32).
Definition succeeded_by (end_ : Z) (s : str) (p : Z -> bool) : bool :=
  p (if end_ <? slen s then char_at s end_ else 32).

Definition is_left_delimiter (a b : Z) (s : str) : bool :=
  negb (succeeded_by b s is_uws) &&
  (negb (succeeded_by b s is_punct) || preceded_by a s is_punct || preceded_by a s is_uws).
Definition is_right_delimiter (a b : Z) (s : str) : bool :=
  negb (preceded_by a s is_uws) &&
  (negb (preceded_by a s is_punct) || succeeded_by b s is_uws || succeeded_by b s is_punct).
Definition is_opener (a b : Z) (s : str) : bool :=
  if char_at s a =? 42 then is_left_delimiter a b s
  else let is_right := is_right_delimiter a b s in
       is_left_delimiter a b s && (negb is_right || (is_right && preceded_by a s is_punct)).
Definition is_closer (a b : Z) (s : str) : bool :=
  if char_at s a =? 42 then is_right_delimiter a b s
  else let is_left := is_left_delimiter a b s in
       is_right_delimiter a b s && (negb is_left || (is_left && succeeded_by b s is_punct)).

(* ---- Delimiter ---- *)
Record delim := mkDelim {
  d_type : str; d_number : Z; d_orig : Z; d_active : bool; d_start : Z; d_end : Z;
  d_emph : bool;                 (* hasattr(self, 'open'): the type starts with * or _ *)
  d_open : bool; d_close : bool
}.

Definition new_delim (a b : Z) (s : str) : delim :=
  let ty := substr s a b in
  let emph := match ty with c :: _ => (c =? 42) || (c =? 95) | [] => false end in
  mkDelim ty (b - a) (b - a) true a b emph (emph && is_opener a b s) (emph && is_closer a b s).

(* Delimiter.remove(n, left): None when nothing would remain *)
Definition d_remove (d : delim) (n : Z) (left : bool) : option delim :=
  if d_number d - n =? 0 then None
  else if left then
    let st := d_start d + n in
    Some (mkDelim (drop n (d_type d)) (d_end d - st) (d_orig d) (d_active d) st (d_end d) (d_emph d) (d_open d) (d_close d))
  else
    let en := d_end d - n in
    Some (mkDelim (take (en - d_start d) (d_type d)) (en - d_start d) (d_orig d) (d_active d) (d_start d) en
                  (d_emph d) (d_open d) (d_close d)).

Definition type0 (d : delim) : Z := match d_type d with c :: _ => c | [] => -1 end.

(* opener.closed_by(closer) *)
Definition closed_by (o c : delim) : bool :=
  if negb (type0 o =? type0 c) then false
  else if (d_open o && d_close o) || (d_open c && d_close c) then
    negb ((d_orig o + d_orig c) mod 3 =? 0) || ((d_orig o mod 3 =? 0) && (d_orig c mod 3 =? 0))
  else true.

(* ---- MatchObj ---- *)
Record mobj := mkMobj {
  m_start : Z; m_end : Z;
  m_fields : list (Z * Z * str);
  m_type : str;                   (* Strong / Emphasis / Link / Image *)
  m_delimiter : str;              (* Strong / Emphasis *)
  m_dest_type : str; m_label : option str; m_title_delim : str
}.

Definition nthd {A} (l : list A) (i : Z) (d : A) : A := nth (Z.to_nat i) l d.
Definition remove_at {A} (l : list A) (i : Z) : list A := firstn (Z.to_nat i) l ++ skipn (S (Z.to_nat i)) l.
Definition set_at {A} (l : list A) (i : Z) (x : A) : list A := firstn (Z.to_nat i) l ++ x :: skipn (S (Z.to_nat i)) l.
Definition dummy : delim := mkDelim [] 0 0 false 0 0 false false false.

(* next_closer(curr_pos, delimiters): first index >= from whose delimiter can close *)
Fixpoint next_closer_from (l : list delim) (i : Z) : option Z :=
  match l with
  | [] => None
  | d :: r => if d_emph d && d_close d then Some i else next_closer_from r (i + 1)
  end.
Definition next_closer (from : Z) (ds : list delim) : option Z := next_closer_from (skipn (Z.to_nat from) ds) from.

(* matching_opener: indexes curr_pos-1 down to lowest+1 *)
Fixpoint matching_opener_down (ds : list delim) (closer : delim) (bottom_pos : Z) (n : nat) (index : Z) : option Z :=
  match n with
  | O => None
  | S n' =>
    let d := nthd ds index dummy in
    if d_start d <? bottom_pos then None
    else if d_emph d && d_open d && closed_by d closer then Some index
    else matching_opener_down ds closer bottom_pos n' (index - 1)
  end.
Definition matching_opener (curr_pos : Z) (ds : list delim) (lowest : Z) (bottom_pos : Z) : option Z :=
  matching_opener_down ds (nthd ds curr_pos dummy) bottom_pos (Z.to_nat (curr_pos - 1 - lowest)) (curr_pos - 1).

(* openers_bottom: (char, closer can open, original length mod 3) -> source position *)
Definition ob_key := (Z * bool * Z)%type.
Definition ob_eq (a b : ob_key) : bool :=
  match a, b with (c1, o1, m1), (c2, o2, m2) => (c1 =? c2) && Bool.eqb o1 o2 && (m1 =? m2) end.
Fixpoint ob_get (k : ob_key) (ob : list (ob_key * Z)) : Z :=
  match ob with [] => -1 | (k', v) :: r => if ob_eq k k' then v else ob_get k r end.

(* the while loop of process_emphasis; `lowest` = -1 for stack_bottom None *)
Fixpoint emph_loop (fuel : nat) (s : str) (lowest : Z) (ob : list (ob_key * Z)) (curr : option Z)
         (ds : list delim) (ms : list mobj) : list delim * list mobj :=
  match fuel with
  | O => (ds, ms)
  | S fuel' =>
    match curr with
    | None => (ds, ms)
    | Some curr_pos =>
      let closer := nthd ds curr_pos dummy in
      let key := (type0 closer, d_open closer, d_orig closer mod 3) in
      match matching_opener curr_pos ds lowest (ob_get key ob) with
      | Some open_pos =>
        let opener := nthd ds open_pos dummy in
        let n := if (2 <=? d_number closer) && (2 <=? d_number opener) then 2 else 1 in
        let st := d_end opener - n in
        let en := d_start closer + n in
        let mt := mkMobj st en [(st + n, en - n, substr s (st + n) (en - n))]
                         (if n =? 2 then $"Strong" else $"Emphasis") [char_at s st] [] None [] in
        (* del delimiters[open_pos + 1:curr_pos]; curr_pos = open_pos + 1 *)
        let ds1 := firstn (Z.to_nat (open_pos + 1)) ds ++ skipn (Z.to_nat curr_pos) ds in
        let cp1 := open_pos + 1 in
        let '(ds2, cp2) := match d_remove opener n false with
                           | Some o' => (set_at ds1 open_pos o', cp1)
                           | None => (remove_at ds1 open_pos, cp1 - 1)
                           end in
        let ds3 := match d_remove closer n true with
                   | Some c' => set_at ds2 cp2 c'
                   | None => remove_at ds2 cp2
                   end in
        emph_loop fuel' s lowest ob (next_closer cp2 ds3) ds3 (ms ++ [mt])
      | None =>
        let ob' := (key, d_start closer) :: ob in
        if negb (d_open closer) then
          let ds1 := remove_at ds curr_pos in
          emph_loop fuel' s lowest ob' (next_closer curr_pos ds1) ds1 ms
        else emph_loop fuel' s lowest ob' (next_closer (curr_pos + 1) ds) ds ms
      end
    end
  end.

(* process_emphasis(string, stack_bottom, delimiters, matches) *)
Definition process_emphasis (s : str) (stack_bottom : option Z) (ds : list delim) (ms : list mobj) : list delim * list mobj :=
  let from := match stack_bottom with Some b => b | None => 0 end in
  let lowest := match stack_bottom with Some b => b | None => -1 end in
  let '(ds', ms') := emph_loop (3 * length s + 3) s lowest [] (next_closer from ds) ds ms in
  (firstn (Z.to_nat from) ds', ms').

(* ---- links and images ---- *)
Definition follows (s : str) (index : Z) (c : Z) : bool := (index + 1 <? slen s) && (char_at s (index + 1) =? c).

Fixpoint shift_ws_aux (l : str) (i : Z) : Z :=
  match l with c :: r => if is_ws c then shift_ws_aux r (i + 1) else i | [] => i end.
Definition shift_whitespace (s : str) (index : Z) : Z := shift_ws_aux (drop index s) index.

Definition is_control_char (c : Z) : bool := (c <? 32) || (c =? 127).

(* the scanning loops `for i, c in enumerate(string[offset:], start=offset)` *)
Fixpoint dest_angle (l : str) (i : Z) (escaped : bool) : option Z :=   (* index of the closing '>' *)
  match l with
  | [] => None
  | c :: r =>
    if (c =? 92) && negb escaped then dest_angle r (i + 1) true
    else if (c =? 10) || ((c =? 60) && negb escaped) then None
    else if (c =? 62) && negb escaped then Some i
    else dest_angle r (i + 1) false
  end.

Fixpoint dest_plain (l : str) (i : Z) (escaped : bool) (count : Z) : option Z :=   (* end index *)
  match l with
  | [] => None
  | c :: r =>
    if (c =? 92) && negb escaped then dest_plain r (i + 1) true count
    else if is_ws c then Some i
    else if negb escaped then
      let count' := if c =? 40 then count + 1 else if c =? 41 then count - 1 else count in
      if count' =? 0 then Some i else dest_plain r (i + 1) false count'
    else if is_control_char c then None
    else (* escaped *) if count =? 0 then Some i else dest_plain r (i + 1) false count
  end.

(* core_tokens.match_link_dest(string, offset): offset is the index of '(' *)
Definition match_link_dest (s : str) (offset : Z) : option (Z * Z * str) :=
  let off := shift_whitespace s (offset + 1) in
  if off =? slen s then None
  else if char_at s off =? 60 then
    match dest_angle (drop (off + 1) s) (off + 1) false with
    | Some i => Some (off, i + 1, substr s (off + 1) i)
    | None => None
    end
  else match dest_plain (drop off s) off false 1 with
       | Some i => Some (off, i, substr s off i)
       | None => None
       end.

Fixpoint title_scan (l : str) (i : Z) (closing : Z) (escaped : bool) : option Z :=
  match l with
  | [] => None
  | c :: r =>
    if (c =? 92) && negb escaped then title_scan r (i + 1) closing true
    else if (c =? closing) && negb escaped then Some i
    else title_scan r (i + 1) closing false
  end.

Definition match_link_title (s : str) (offset : Z) : option (Z * Z * str) :=
  let off := shift_whitespace s offset in
  if off =? slen s then None
  else let c := char_at s off in
       if c =? 41 then Some (off, off, [])
       else let closing := if c =? 34 then 34 else if c =? 39 then 39 else if c =? 40 then 41 else -1 in
            if closing =? -1 then None
            else match title_scan (drop (off + 1) s) (off + 1) closing false with
                 | Some i => Some (off, i + 1, substr s (off + 1) i)
                 | None => None
                 end.

(* core_tokens.match_link_label(string, offset, root) *)
Fixpoint label_scan (l : str) (i : Z) (start : Z) (escaped : bool) : option (Z * Z) :=   (* (start, end) *)
  match l with
  | [] => None
  | c :: r =>
    if (c =? 92) && negb escaped then label_scan r (i + 1) start true
    else if (c =? 91) && negb escaped then
      if start =? -1 then label_scan r (i + 1) i false else None
    else if (c =? 93) && negb escaped then Some (start, i)
    else label_scan r (i + 1) start false
  end.

Definition match_link_label (s : str) (offset : Z) (fn : footnotes) : option ((Z * Z * str) * (str * str)) :=
  match label_scan (drop offset s) offset (-1) false with
  | Some (st, en) =>
    let label := substr s (st + 1) en in
    if negb (is_blank label) then
      match fn_get (normalize_label label) fn with
      | Some ref => Some ((st, en + 1, label), ref)
      | None => None
      end
    else None
  | None => None
  end.

Fixpoint no_unescaped_bracket (l : str) (escaped : bool) : bool :=
  match l with
  | [] => true
  | c :: r =>
    if (c =? 92) && negb escaped then no_unescaped_bracket r true
    else if ((c =? 91) || (c =? 93)) && negb escaped then false
    else no_unescaped_bracket r false
  end.

Definition get_link_label (text : str) (fn : footnotes) : option (str * str) :=
  if no_unescaped_bracket text false && negb (is_blank text) then fn_get (normalize_label text) fn else None.

Definition link_mobj (image : bool) (st en : Z) (f1 f2 f3 : Z * Z * str) (dest_type : str) (label : option str) (td : str) : mobj :=
  mkMobj st en [f1; f2; f3] (if image then $"Image" else $"Link") [] dest_type label td.

(* core_tokens.match_link_image(string, offset, delimiter, root) *)
Definition match_link_image (s : str) (offset : Z) (d : delim) (fn : footnotes) : option mobj :=
  let image := str_eqb (d_type d) $"![" in
  let st := d_start d in
  let text_start := st + d_number d in
  let text_end := offset in
  let text := substr s text_start text_end in
  let ftext := (text_start, text_end, text) in
  let inline :=
    if follows s offset 40 then
      match match_link_dest s (offset + 1) with
      | Some (ds_, de, dest) =>
        match match_link_title s de with
        | Some (ts, te, title) =>
          let paren := shift_whitespace s te in
          if (paren <? slen s) && (char_at s paren =? 41) then
            Some (link_mobj image st (paren + 1) ftext (ds_, de, dest) (ts, te, title)
                            (if (ds_ <? de) && (char_at s ds_ =? 60) then $"angle_uri" else $"uri") None
                            (if ts <? te then [char_at s ts] else []))
          else None
        | None => None
        end
      | None => None
      end
    else None in
  match inline with
  | Some m => Some m
  | None =>
    if follows s offset 91 then
      match match_link_label s (offset + 1) fn with
      | Some ((_, lend, label), (dest, title)) =>
        Some (link_mobj image st lend ftext (-1, -1, dest) (-1, -1, title) $"full" (Some label) [])
      | None =>
        match get_link_label text fn with
        | Some (dest, title) =>
          if follows s (offset + 1) 93 then
            Some (link_mobj image st (offset + 3) ftext (-1, -1, dest) (-1, -1, title) $"collapsed" None [])
          else None
        | None => None
        end
      end
    else
      match get_link_label text fn with
      | Some (dest, title) =>
        Some (link_mobj image st (offset + 1) ftext (-1, -1, dest) (-1, -1, title) $"shortcut" None [])
      | None => None
      end
  end.

Definition is_bracket (d : delim) : bool := str_eqb (d_type d) $"[" || str_eqb (d_type d) $"![".

(* deactivate_delimiters(delimiters, index, '[') *)
Definition deactivate (ds : list delim) (index : Z) : list delim :=
  map (fun d => if str_eqb (d_type d) $"[" then
                  mkDelim (d_type d) (d_number d) (d_orig d) false (d_start d) (d_end d) (d_emph d) (d_open d) (d_close d)
                else d) (firstn (Z.to_nat index) ds) ++ skipn (Z.to_nat index) ds.

(* find_link_image: walks the delimiters from the last one down; returns the new
   index i of the scanner, the delimiters and the matches *)
Fixpoint find_li_down (n : nat) (i : Z) (s : str) (offset : Z) (ds : list delim) (ms : list mobj) (fn : footnotes)
  : Z * list delim * list mobj :=
  match n with
  | O => (offset, ds, ms)
  | S n' =>
    let d := nthd ds i dummy in
    if is_bracket d then
      if negb (d_active d) then (offset, remove_at ds i, ms)
      else match match_link_image s offset d fn with
           | Some mt =>
             let '(ds1, ms1) := process_emphasis s (Some i) ds ms in
             let ds2 := if str_eqb (d_type d) $"[" then deactivate ds1 i else ds1 in
             (m_end mt - 1, ds2, ms1 ++ [mt])
           | None => (offset, remove_at ds i, ms)
           end
    else find_li_down n' (i - 1) s offset ds ms fn
  end.
Definition find_link_image (s : str) (offset : Z) (ds : list delim) (ms : list mobj) (fn : footnotes) :=
  find_li_down (length ds) (Z.of_nat (length ds) - 1) s offset ds ms fn.

(* ---- the scanner ---- *)
(* code_pattern.search(string, i): (start, end, match) of the next code span at or after i *)
Definition seek (s : str) (i : Z) : mst := mkMst (rev (take i s)) (drop i s) i [].
Definition code_search (s : str) (i : Z) : option (mst * mst) :=
  search fl_core_tokens_code_pattern re_core_tokens_code_pattern (seek s i).

Record scan := mkScan {
  sc_ds : list delim; sc_ms : list mobj; sc_escaped : bool; sc_run : option Z; sc_in_image : bool;
  sc_start : Z; sc_code : list (mst * mst)       (* what find_core_tokens appends to _code_matches *)
}.

Definition close_run (s : str) (st : scan) (i : Z) : list delim :=
  sc_ds st ++ [new_delim (sc_start st) (if sc_escaped st then i - 1 else i) s].

Fixpoint scan_loop (fuel : nat) (s : str) (fn : footnotes) (i : Z) (cm : option (mst * mst)) (st : scan) : scan :=
  match fuel with
  | O => st
  | S fuel' =>
    if negb (i <? slen s) then
      match sc_run st with
      | Some _ => mkScan (sc_ds st ++ [new_delim (sc_start st) i s]) (sc_ms st) (sc_escaped st) (sc_run st)
                         (sc_in_image st) (sc_start st) (sc_code st)
      | None => st
      end
    else
      let at_code := match cm with Some (c0, _) => i =? pos c0 | None => false end in
      if at_code then
        match cm with
        | Some (c0, c1) =>
          let st1 := match sc_run st with
                     | Some _ => mkScan (close_run s st i) (sc_ms st) false None (sc_in_image st) (sc_start st) (sc_code st)
                     | None => st
                     end in
          let st2 := mkScan (sc_ds st1) (sc_ms st1) (sc_escaped st1) (sc_run st1) (sc_in_image st1) (sc_start st1)
                            (sc_code st1 ++ [(c0, c1)]) in
          scan_loop fuel' s fn (pos c1) (code_search s (pos c1)) st2
        | None => st
        end
      else
        let c := char_at s i in
        if (c =? 92) && negb (sc_escaped st) then
          scan_loop fuel' s fn (i + 1) cm
                    (mkScan (sc_ds st) (sc_ms st) true (sc_run st) (sc_in_image st) (sc_start st) (sc_code st))
        else
          let escaped := sc_escaped st in
          (* a delimiter run ends *)
          let '(ds1, run1) :=
            match sc_run st with
            | Some rc => if negb (c =? rc) || escaped then (close_run s st i, None) else (sc_ds st, sc_run st)
            | None => (sc_ds st, None)
            end in
          (* a delimiter run starts *)
          let '(run2, start2) :=
            match run1 with
            | None => if ((c =? 42) || (c =? 95)) && negb escaped then (Some c, i) else (None, sc_start st)
            | Some _ => (run1, sc_start st)
            end in
          if negb escaped then
            if c =? 91 then
              let ds2 := if negb (sc_in_image st) then ds1 ++ [new_delim i (i + 1) s]
                         else ds1 ++ [new_delim (i - 1) (i + 1) s] in
              scan_loop fuel' s fn (i + 1) cm (mkScan ds2 (sc_ms st) false run2 false start2 (sc_code st))
            else if c =? 33 then
              scan_loop fuel' s fn (i + 1) cm (mkScan ds1 (sc_ms st) false run2 true start2 (sc_code st))
            else if c =? 93 then
              let '(i', ds2, ms2) := find_link_image s i ds1 (sc_ms st) fn in
              scan_loop fuel' s fn (i' + 1) (code_search s i')
                        (mkScan ds2 ms2 false run2 (sc_in_image st) start2 (sc_code st))
            else
              scan_loop fuel' s fn (i + 1) cm (mkScan ds1 (sc_ms st) false run2 false start2 (sc_code st))
          else
            scan_loop fuel' s fn (i + 1) cm (mkScan ds1 (sc_ms st) false run2 (sc_in_image st) start2 (sc_code st))
  end.

(* find_core_tokens(string, root): the matches, and the code spans handed to InlineCode.find *)
Definition find_core_tokens (s : str) (fn : footnotes) : list mobj * list (mst * mst) :=
  let st := scan_loop (S (S (length s))) s fn 0 (code_search s 0) (mkScan [] [] false None false 0 []) in
  let '(_, ms) := process_emphasis s None (sc_ds st) (sc_ms st) in
  (ms, sc_code st).
