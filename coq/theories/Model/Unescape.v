(* html.unescape as mistletoe uses it while tokenizing inline content:
   span_tokenizer.tokenize swaps html._charref for _markdown_charref (taken
   from Gen/GenRegex.v) and html.unescape substitutes _replace_charref. *)
From Coq Require Import ZArith List Bool.
From Mistletoe Require Import Base.Sx Base.PyStr Base.PyText Gen.GenTables Re.ReMatch Gen.GenRegex.
Import ListNotations.
Local Open Scope Z_scope.

Fixpoint assoc_s {A} (k : str) (l : list (str * A)) : option A :=
  match l with [] => None | (k', v) :: r => if str_eqb k k' then Some v else assoc_s k r end.

Definition hex_val (c : Z) : Z :=
  if (48 <=? c) && (c <=? 57) then c - 48
  else if (97 <=? c) && (c <=? 102) then c - 87
  else if (65 <=? c) && (c <=? 70) then c - 55 else 0.

Definition int_base (base : Z) (s : str) : Z := fold_left (fun acc c => acc * base + hex_val c) s 0.

(* longest prefix s[:x], x from len(s)-1 down to 2, that is an entity name *)
Fixpoint longest_prefix (n : nat) (s : str) : option str :=
  match n with
  | O | S O => None
  | S n' =>
    match assoc_s (firstn n s) html5_entities with
    | Some v => Some (v ++ skipn n s)
    | None => longest_prefix n' s
    end
  end.

(* html._replace_charref on m.group(1) *)
Definition replace_charref (s : str) : str :=
  match s with
  | 35 :: r =>                                      (* '#' *)
    let num := match r with
               | c :: r' => if (c =? 120) || (c =? 88) then int_base 16 (rstrip_set [59] r')
                            else int_base 10 (rstrip_set [59] r)
               | [] => 0
               end in
    match assocZ num invalid_charrefs with
    | Some v => v
    | None =>
      if ((55296 <=? num) && (num <=? 57343)) || (1114111 <? num) then [65533]
      else if mem num invalid_codepoints then []
      else [num]
    end
  | _ =>
    match assoc_s s html5_entities with
    | Some v => v
    | None => match longest_prefix (length s - 1) s with
              | Some v => v
              | None => 38 :: s
              end
    end
  end.

(* pattern.sub(f, text) over the matches of finditer *)
Fixpoint sub_matches (text : str) (cur : Z) (ms : list (mst * mst)) (f : mst -> str) : str :=
  match ms with
  | [] => drop cur text
  | (s0, s1) :: r => substr text cur (pos s0) ++ f s1 ++ sub_matches text (pos s1) r f
  end.

Definition unescape_with (r : re) (fl : flags) (s : str) : str :=
  if negb (mem 38 s) then s
  else sub_matches s 0 (finditer fl r s)
                   (fun m => match group_text m 1 with Some g => replace_charref g | None => [] end).

(* html.unescape INSIDE span_tokenizer.tokenize (html._charref = _markdown_charref) *)
Definition unescape (s : str) : str := unescape_with re_span_tokenizer_markdown_charref fl_span_tokenizer_markdown_charref s.
(* html.unescape OUTSIDE of it (block phase, CodeFence constructor): the standard library's own pattern *)
Definition unescape_std (s : str) : str := unescape_with re_span_tokenizer_stdlib_charref fl_span_tokenizer_stdlib_charref s.

(* EscapeSequence.strip: html.unescape(pattern.sub(r'\1', string)) *)
Definition escape_strip_std (s : str) : str :=
  unescape_std (sub_matches s 0 (finditer fl_span_token_EscapeSequence_pattern re_span_token_EscapeSequence_pattern s)
                            (fun m => match group_text m 1 with Some g => g | None => [] end)).

Definition escape_strip (s : str) : str :=
  unescape (sub_matches s 0 (finditer fl_span_token_EscapeSequence_pattern re_span_token_EscapeSequence_pattern s)
                        (fun m => match group_text m 1 with Some g => g | None => [] end)).

