(* Vocabulary shared by the regenerated Gen/GenEscapes.v and the renderer
   models: WHICH escaping function the source applies at each template hole,
   and under which option a .replace() of an escape chain is active. *)
From Coq Require Import ZArith List.
From Mistletoe Require Import Base.Sx.

Inductive filler :=
| FRaw          (* token.attr written as it is                     *)
| FHtmlEscape   (* html.escape(token.attr)                         *)
| FEscapeUrl    (* self.escape_url(token.attr)                     *)
| FEscapeText.  (* self.escape_html_text(...) / render_raw_text    *)

Inductive guard :=
| GAlways
| GDouble       (* if self.html_escape_double_quotes *)
| GSingle.      (* if self.html_escape_single_quotes *)

Definition chain := list (guard * Z * str).   (* s = s.replace(chr c, r), in order *)
