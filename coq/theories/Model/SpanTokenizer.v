(* Model of mistletoe/span_tokenizer.py  (find_tokens' ordering, eval_tokens,
   eval_new_child, relation, ParseToken.append_child, make_tokens,
   ParseToken.make, tokenize) over ABSTRACT candidate matches.

   A candidate is what ParseToken.__init__ keeps of a match object:
     start, end, parse_start, parse_end (= match.start/end(cls.parse_group)),
     cls.precedence, cls.parse_inner, and an identity.
   `find_tokens` concatenates the candidates of the token types in list order
   and sorts them with Python's stable `sorted` under `__lt__ = start <`.

   Representation choice (documented, checked by the correspondence run):
   Python appends to `children` / `token_buffer` at the END of a list and
   inspects `children[-1]`; the model keeps those two lists REVERSED (head =
   last appended) so that the recursion of append_child -> eval_new_child ->
   append_child is structural.  `tokenize` reverses at the end. *)
From Coq Require Import ZArith List Bool.
Import ListNotations.
Local Open Scope Z_scope.

Record cand := mkCand {
  cs : Z;        (* ParseToken.start        *)
  ce : Z;        (* ParseToken.end          *)
  ps : Z;        (* ParseToken.parse_start  *)
  pe : Z;        (* ParseToken.parse_end    *)
  prec : Z;      (* cls.precedence          *)
  inner : bool;  (* cls.parse_inner         *)
  cid : Z        (* identity of the match   *)
}.

(* ParseToken with its (reversed) children list *)
Inductive ptok := PT (c : cand) (rch : list ptok).
Definition pc (p : ptok) : cand := match p with PT c _ => c end.
Definition prch (p : ptok) : list ptok := match p with PT _ l => l end.

Inductive rel := R0 | R1 | R2 | R3.

(* def relation(x, y) *)
Definition relation (x y : cand) : rel :=
  if ce x <=? cs y then R0
  else if ce x >=? ce y then
         if (ps x <=? cs y) && (pe x >=? ce y) then R2
         else if pe x <=? cs y then R3
         else R1
       else R1.

(* ParseToken.append_child together with eval_new_child *)
Fixpoint append_child (p : ptok) (y : cand) : ptok :=
  match p with
  | PT c rch =>
    if inner c then
      match rch with
      | [] => PT c [PT y []]
      | l :: rest =>
        match relation (pc l) y with
        | R0 => PT c (PT y [] :: l :: rest)
        | R1 => if prec (pc l) <? prec y then PT c (PT y [] :: rest) else p
        | R2 => PT c (append_child l y :: rest)
        | R3 => p
        end
      end
    else p
  end.

(* eval_tokens(x, y, token_buffer): returns the new `prev` and the buffer *)
Definition eval_tokens (x : ptok) (y : cand) (rbuf : list ptok) : ptok * list ptok :=
  match relation (pc x) y with
  | R0 => (PT y [], x :: rbuf)
  | R1 => if prec (pc x) >=? prec y then (x, rbuf) else (PT y [], rbuf)
  | R2 => (append_child x y, rbuf)
  | R3 => (x, rbuf)
  end.

Fixpoint eval_loop (prev : ptok) (rbuf : list ptok) (rest : list cand) : ptok * list ptok :=
  match rest with
  | [] => (prev, rbuf)
  | y :: rest' => let '(p, b) := eval_tokens prev y rbuf in eval_loop p b rest'
  end.

(* the token_buffer part of tokenize(), still reversed *)
Definition buffer_rev (sorted : list cand) : list ptok :=
  match sorted with
  | [] => []
  | c :: rest => let '(p, b) := eval_loop (PT c []) [] rest in p :: b
  end.

(* Python's sorted() with key "start": stable insertion sort *)
Fixpoint insert_stable (c : cand) (l : list cand) : list cand :=
  match l with
  | [] => [c]
  | d :: l' => if cs c <=? cs d then c :: l else d :: insert_stable c l'
  end.
(* fold_right inserts each candidate in front of the candidates that FOLLOW it
   in the original list; `<=` therefore keeps equal keys in original order *)
Definition sort_cands (l : list cand) : list cand := fold_right insert_stable [] l.

(* Output tokens: RawText built from string[a:b], or a token made from a
   candidate, with children (Some ..) iff cls.parse_inner *)
Inductive otok :=
| ORaw (a b : Z)
| OTok (c : cand) (ch : option (list otok)).

(* make_tokens over a REVERSED token list, producing a REVERSED result
   without the trailing gap.  `f` is ParseToken.make. *)
Definition mk_rev (f : ptok -> otok) : list ptok -> Z -> list otok :=
  fix go (rl : list ptok) (start : Z) : list otok :=
    match rl with
    | [] => []
    | t :: rest =>
      let prev_end := match rest with [] => start | r :: _ => ce (pc r) end in
      f t :: (if cs (pc t) >? prev_end then [ORaw prev_end (cs (pc t))] else []) ++ go rest start
    end.

Definition last_end (rl : list ptok) (start : Z) : Z :=
  match rl with [] => start | t :: _ => ce (pc t) end.

Definition make_tokens_with (f : ptok -> otok) (rl : list ptok) (start end_ : Z) : list otok :=
  rev ((if last_end rl start =? end_ then [] else [ORaw (last_end rl start) end_])
       ++ mk_rev f rl start).

(* ParseToken.make *)
Fixpoint make (t : ptok) : otok :=
  match t with
  | PT c rch =>
    if inner c then OTok c (Some (make_tokens_with make rch (ps c) (pe c)))
    else OTok c None
  end.

Definition make_tokens := make_tokens_with make.

(* tokenize(string, token_types) given the candidates in find_tokens order
   (all matches of the first token type, then of the second, ...) *)
Definition tokenize (cands : list cand) (len : Z) : list otok :=
  make_tokens (buffer_rev (sort_cands cands)) 0 len.
