(* Model of mistletoe/utils.py:traverse and ast_renderer.py:get_ast on a generic
   tree view of tokens: a node has a class label and, unless it is a leaf token,
   a list of children (token.children or []).  A node is identified by its PATH
   (child indexes from the source, innermost first); the real generator yields
   (node, parent, depth): node = the token at the path, parent = the token at the
   path without its head. *)
From Coq Require Import ZArith List Bool.
Import ListNotations.

Inductive utree := UT (label : Z) (children : list utree).
Definition uchildren (t : utree) : list utree := match t with UT _ c => c end.
Definition ulabel (t : utree) : Z := match t with UT l _ => l end.

Definition path := list nat.      (* innermost index first *)

Fixpoint number {A} (i : nat) (l : list A) : list (nat * A) :=
  match l with [] => [] | x :: r => (i, x) :: number (S i) r end.

(* [(child, c) for c in child.children or []] with paths *)
Definition expand (pt : path * utree) : list (path * utree) :=
  map (fun ic => (fst ic :: fst pt, snd ic)) (number 0 (uchildren (snd pt))).

(* the while loop: `frontier` = next_children, `d` = current_depth, `limit` = depth *)
Fixpoint bfs (fuel : nat) (keep : utree -> bool) (limit : option nat) (d : nat) (frontier : list (path * utree))
  : list (path * utree * nat) :=
  match fuel with
  | O => []
  | S f =>
    match frontier with
    | [] => []
    | _ =>
      if match limit with Some l => Nat.ltb d l | None => true end then
        map (fun pt => (fst pt, snd pt, S d)) (filter (fun pt => keep (snd pt)) frontier)
          ++ bfs f keep limit (S d) (flat_map expand frontier)
      else []
    end
  end.

Fixpoint height (t : utree) : nat :=
  match t with UT _ c => S (fold_right (fun x m => Nat.max (height x) m) O c) end.

(* traverse(source, klass, depth, include_source); klass is a predicate on nodes *)
Definition traverse (source : utree) (keep : utree -> bool) (limit : option nat) (include_source : bool)
  : list (path * utree * nat) :=
  (if include_source && keep source then [([], source, O)] else [])
    ++ bfs (S (height source)) keep limit O (expand ([], source)).

(* the token at a path *)
Fixpoint subtree (t : utree) (p : path) : option utree :=
  match p with
  | [] => Some t
  | i :: p' => match subtree t p' with Some s => nth_error (uchildren s) i | None => None end
  end.
