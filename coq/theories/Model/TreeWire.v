(* Wire decoding of token trees (the Python dumper/loader speaks the same
   format: harness/trees.py).  (tag field ... children) *)
From Coq Require Import ZArith List Bool.
From Mistletoe Require Import Base.Sx Model.Tree.
Import ListNotations.
Local Open Scope Z_scope.

Definition optZ_of_sx (x : sx) : option Z :=
  match x with SxL [SxZ z] => Some z | _ => None end.
Definition optstr_of_sx (x : sx) : option str :=
  match x with SxL [s] => Some (str_of_sx s) | _ => None end.
Definition aligns_of_sx (x : sx) : list (option Z) := map optZ_of_sx (l_of_sx x).

Fixpoint tok_of_sx (x : sx) : tok :=
  let kids := fun (a : sx) => match a with SxL l => map tok_of_sx l | SxZ _ => [] end in
  match x with
  | SxL [SxZ 0; c] => RawText (str_of_sx c)
  | SxL [SxZ 1; d; ch] => Strong (str_of_sx d) (kids ch)
  | SxL [SxZ 2; d; ch] => Emphasis (str_of_sx d) (kids ch)
  | SxL [SxZ 3; ch] => Strikethrough (kids ch)
  | SxL [SxZ 4; d; p; c] => InlineCode (mkCode (str_of_sx d) (str_of_sx p) (str_of_sx c))
  | SxL [SxZ 5; t; ti; dt; lb; td; ch] =>
    Image (mkLink (str_of_sx t) (str_of_sx ti) (str_of_sx dt) (optstr_of_sx lb) (str_of_sx td)) (kids ch)
  | SxL [SxZ 6; t; ti; dt; lb; td; ch] =>
    Link (mkLink (str_of_sx t) (str_of_sx ti) (str_of_sx dt) (optstr_of_sx lb) (str_of_sx td)) (kids ch)
  | SxL [SxZ 7; t; m; ch] => AutoLink (str_of_sx t) (bool_of_sx m) (kids ch)
  | SxL [SxZ 8; ch] => EscapeSequence (kids ch)
  | SxL [SxZ 9; c; s] => LineBreak (str_of_sx c) (bool_of_sx s)
  | SxL [SxZ 10; c] => HtmlSpan (str_of_sx c)
  | SxL [SxZ 11; c] => Math (str_of_sx c)
  | SxL [SxZ 12; l; c; ch] => Heading (z_of_sx l) (str_of_sx c) (kids ch)
  | SxL [SxZ 13; l; u; ch] => SetextHeading (z_of_sx l) (str_of_sx u) (kids ch)
  | SxL [SxZ 14; ch] => Quote (kids ch)
  | SxL [SxZ 15; ch] => Paragraph (kids ch)
  | SxL [SxZ 16; c] => BlockCode (str_of_sx c)
  | SxL [SxZ 17; i; d; inf; lang; c] =>
    CodeFence (mkFence (z_of_sx i) (str_of_sx d) (str_of_sx inf) (str_of_sx lang) (str_of_sx c))
  | SxL [SxZ 18; s; l; ch] => List (optZ_of_sx s) (bool_of_sx l) (kids ch)
  | SxL [SxZ 19; ld; i; p; l; ch] =>
    ListItem (mkItem (str_of_sx ld) (z_of_sx i) (z_of_sx p) (bool_of_sx l)) (kids ch)
  | SxL [SxZ 20; ca; h; ch] =>
    Table (aligns_of_sx ca) (match h with SxL [hd] => Some (tok_of_sx hd) | _ => None end) (kids ch)
  | SxL [SxZ 21; ra; ch] => TableRow (aligns_of_sx ra) (kids ch)
  | SxL [SxZ 22; a; ch] => TableCell (optZ_of_sx a) (kids ch)
  | SxL [SxZ 23; l] => ThematicBreak (str_of_sx l)
  | SxL [SxZ 24; c] => HtmlBlock (str_of_sx c)
  | SxL [SxZ 25; ch] => Document (kids ch)
  | SxL [SxZ 26] => BlankLine
  | SxL [SxZ 27; l; d; t; dt; td] =>
    LinkRefDef (mkLrd (str_of_sx l) (str_of_sx d) (str_of_sx t) (str_of_sx dt) (str_of_sx td))
  | SxL [SxZ 28; ch] => LinkRefDefBlock (kids ch)
  | _ => RawText []
  end.

(* encoding (model -> harness) *)
Definition sx_of_optZ (o : option Z) : sx := match o with Some z => SxL [SxZ z] | None => SxL [] end.
Definition sx_of_optstr (o : option str) : sx := match o with Some s => SxL [sx_of_str s] | None => SxL [] end.
Definition sx_of_aligns (l : list (option Z)) : sx := SxL (map sx_of_optZ l).

Fixpoint sx_of_tok (t : tok) : sx :=
  let kids := fun (ch : list tok) => SxL (map sx_of_tok ch) in
  let link := fun (tag : Z) (a : link_attrs) (ch : list tok) =>
    SxL [SxZ tag; sx_of_str (l_target a); sx_of_str (l_title a); sx_of_str (l_dest_type a); sx_of_optstr (l_label a);
         sx_of_str (l_title_delim a); kids ch] in
  match t with
  | RawText c => SxL [SxZ 0; sx_of_str c]
  | Strong d ch => SxL [SxZ 1; sx_of_str d; kids ch]
  | Emphasis d ch => SxL [SxZ 2; sx_of_str d; kids ch]
  | Strikethrough ch => SxL [SxZ 3; kids ch]
  | InlineCode a => SxL [SxZ 4; sx_of_str (c_delimiter a); sx_of_str (c_padding a); sx_of_str (c_content a)]
  | Image a ch => link 5 a ch
  | Link a ch => link 6 a ch
  | AutoLink tg m ch => SxL [SxZ 7; sx_of_str tg; sx_of_bool m; kids ch]
  | EscapeSequence ch => SxL [SxZ 8; kids ch]
  | LineBreak c s => SxL [SxZ 9; sx_of_str c; sx_of_bool s]
  | HtmlSpan c => SxL [SxZ 10; sx_of_str c]
  | Math c => SxL [SxZ 11; sx_of_str c]
  | Heading l c ch => SxL [SxZ 12; SxZ l; sx_of_str c; kids ch]
  | SetextHeading l u ch => SxL [SxZ 13; SxZ l; sx_of_str u; kids ch]
  | Quote ch => SxL [SxZ 14; kids ch]
  | Paragraph ch => SxL [SxZ 15; kids ch]
  | BlockCode c => SxL [SxZ 16; sx_of_str c]
  | CodeFence a => SxL [SxZ 17; SxZ (f_indentation a); sx_of_str (f_delimiter a); sx_of_str (f_info a);
                        sx_of_str (f_language a); sx_of_str (f_content a)]
  | List s l ch => SxL [SxZ 18; sx_of_optZ s; sx_of_bool l; kids ch]
  | ListItem a ch => SxL [SxZ 19; sx_of_str (i_leader a); SxZ (i_indentation a); SxZ (i_prepend a); sx_of_bool (i_loose a); kids ch]
  | Table ca h ch => SxL [SxZ 20; sx_of_aligns ca; (match h with Some h' => SxL [sx_of_tok h'] | None => SxL [] end); kids ch]
  | TableRow ra ch => SxL [SxZ 21; sx_of_aligns ra; kids ch]
  | TableCell a ch => SxL [SxZ 22; sx_of_optZ a; kids ch]
  | ThematicBreak l => SxL [SxZ 23; sx_of_str l]
  | HtmlBlock c => SxL [SxZ 24; sx_of_str c]
  | Document ch => SxL [SxZ 25; kids ch]
  | BlankLine => SxL [SxZ 26]
  | LinkRefDef a => SxL [SxZ 27; sx_of_str (d_label a); sx_of_str (d_dest a); sx_of_str (d_title a);
                         sx_of_str (d_dest_type a); sx_of_str (d_title_delim a)]
  | LinkRefDefBlock ch => SxL [SxZ 28; kids ch]
  end.
