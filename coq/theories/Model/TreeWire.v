(* Wire decoding of token trees (the Python dumper/loader speaks the same
   format: harness/trees.py).  (tag field ... children) *)
From Coq Require Import ZArith List Bool.
From Mistletoe Require Import Base.Sx Model.Tree.
Import ListNotations.
Local Open Scope Z_scope.

Definition optZ_of_sx (x : sx) : option Z :=
  match x with SxL [SxZ z] => Some z | _ => None end.
Definition optstr_of_sx (x : sx) : option str :=
  match x with SxL [s] => Some (str_of_sx s) | _ => None end.
Definition aligns_of_sx (x : sx) : list (option Z) := map optZ_of_sx (l_of_sx x).

Fixpoint tok_of_sx (x : sx) : tok :=
  let kids := fun (a : sx) => match a with SxL l => map tok_of_sx l | SxZ _ => [] end in
  match x with
  | SxL [SxZ 0; c] => RawText (str_of_sx c)
  | SxL [SxZ 1; d; ch] => Strong (str_of_sx d) (kids ch)
  | SxL [SxZ 2; d; ch] => Emphasis (str_of_sx d) (kids ch)
  | SxL [SxZ 3; ch] => Strikethrough (kids ch)
  | SxL [SxZ 4; d; p; c] => InlineCode (mkCode (str_of_sx d) (str_of_sx p) (str_of_sx c))
  | SxL [SxZ 5; t; ti; dt; lb; td; ch] =>
    Image (mkLink (str_of_sx t) (str_of_sx ti) (str_of_sx dt) (optstr_of_sx lb) (str_of_sx td)) (kids ch)
  | SxL [SxZ 6; t; ti; dt; lb; td; ch] =>
    Link (mkLink (str_of_sx t) (str_of_sx ti) (str_of_sx dt) (optstr_of_sx lb) (str_of_sx td)) (kids ch)
  | SxL [SxZ 7; t; m; ch] => AutoLink (str_of_sx t) (bool_of_sx m) (kids ch)
  | SxL [SxZ 8; ch] => EscapeSequence (kids ch)
  | SxL [SxZ 9; c; s] => LineBreak (str_of_sx c) (bool_of_sx s)
  | SxL [SxZ 10; c] => HtmlSpan (str_of_sx c)
  | SxL [SxZ 11; c] => Math (str_of_sx c)
  | SxL [SxZ 12; l; c; ch] => Heading (z_of_sx l) (str_of_sx c) (kids ch)
  | SxL [SxZ 13; l; u; ch] => SetextHeading (z_of_sx l) (str_of_sx u) (kids ch)
  | SxL [SxZ 14; ch] => Quote (kids ch)
  | SxL [SxZ 15; ch] => Paragraph (kids ch)
  | SxL [SxZ 16; c] => BlockCode (str_of_sx c)
  | SxL [SxZ 17; i; d; inf; lang; c] =>
    CodeFence (mkFence (z_of_sx i) (str_of_sx d) (str_of_sx inf) (str_of_sx lang) (str_of_sx c))
  | SxL [SxZ 18; s; l; ch] => List (optZ_of_sx s) (bool_of_sx l) (kids ch)
  | SxL [SxZ 19; ld; i; p; l; ch] =>
    ListItem (mkItem (str_of_sx ld) (z_of_sx i) (z_of_sx p) (bool_of_sx l)) (kids ch)
  | SxL [SxZ 20; ca; h; ch] =>
    Table (aligns_of_sx ca) (match h with SxL [hd] => Some (tok_of_sx hd) | _ => None end) (kids ch)
  | SxL [SxZ 21; ra; ch] => TableRow (aligns_of_sx ra) (kids ch)
  | SxL [SxZ 22; a; ch] => TableCell (optZ_of_sx a) (kids ch)
  | SxL [SxZ 23; l] => ThematicBreak (str_of_sx l)
  | SxL [SxZ 24; c] => HtmlBlock (str_of_sx c)
  | SxL [SxZ 25; ch] => Document (kids ch)
  | SxL [SxZ 26] => BlankLine
  | SxL [SxZ 27; l; d; t; dt; td] =>
    LinkRefDef (mkLrd (str_of_sx l) (str_of_sx d) (str_of_sx t) (str_of_sx dt) (str_of_sx td))
  | SxL [SxZ 28; ch] => LinkRefDefBlock (kids ch)
  | _ => RawText []
  end.
