(* Model of the process-global token lists over a history of library use
   (base_renderer.BaseRenderer.__init__/__exit__, block_token/span_token.add_token,
   reset_tokens).  A session is `with R(...) as r: body`; sessions are not nested
   (each renderer is used as a context manager, one after the other).  What the
   constructor of each renderer leaves in the two lists when it starts from the
   defaults is regenerated from the live classes (Gen/GenConfig.v). *)
From Coq Require Import ZArith List Bool.
From Mistletoe Require Import Base.Sx Gen.GenConfig Model.Tree Model.Parser.
Import ListNotations.

Inductive rname := R_html | R_html_nohtml | R_markdown | R_latex | R_ast | R_toc | R_wiki | R_mathjax | R_pygments | R_jira | R_xwiki.

Definition lists_inside (r : rname) : list block_kind * list span_kind :=
  match r with
  | R_html => (block_types_html, span_types_html) | R_html_nohtml => (block_types_html_nohtml, span_types_html_nohtml)
  | R_markdown => (block_types_markdown, span_types_markdown) | R_latex => (block_types_latex, span_types_latex)
  | R_ast => (block_types_ast, span_types_ast) | R_toc => (block_types_toc, span_types_toc)
  | R_wiki => (block_types_wiki, span_types_wiki) | R_mathjax => (block_types_mathjax, span_types_mathjax)
  | R_pygments => (block_types_pygments, span_types_pygments) | R_jira => (block_types_jira, span_types_jira)
  | R_xwiki => (block_types_xwiki, span_types_xwiki)
  end.

Definition defaults : list block_kind * list span_kind := (block_types_default, span_types_default).

(* what happens inside a session: documents are parsed and rendered; a parse may end
   in an exception raised by a custom token; custom tokens may be added to the lists *)
Inductive body_op :=
| Render (text : str)
| RaisingParse (text : str) (in_span_list : bool) (position : nat) (kth_call : nat)
| AddCustom (in_span_list : bool) (position : nat).

Inductive op :=
| Session (r : rname) (body : list body_op)
| BareDocument (text : str).                 (* Document(probe) with no renderer active *)

Definition gstate := (list block_kind * list span_kind)%type.

(* the lists after a body operation: only AddCustom / RaisingParse change them (a
   custom class is inserted; the model records it as "some other list") *)
Definition run_body (st : option gstate) (b : body_op) : option gstate :=
  match b with
  | Render _ => st
  | RaisingParse _ _ _ _ | AddCustom _ _ => None      (* None = lists hold a custom class *)
  end.

(* __exit__ runs whether or not the body raised: reset_tokens() on both modules *)
Definition run_op (st : gstate) (o : op) : gstate :=
  match o with
  | Session r body =>
    let inside := fold_left run_body body (Some (lists_inside r)) in
    (* block_token.reset_tokens(); span_token.reset_tokens() *)
    match inside with _ => defaults end
  | BareDocument _ => st
  end.

Definition run (h : list op) (st : gstate) : gstate := fold_left run_op h st.

(* the lists a Render inside a session of r sees, when the session started from the defaults *)
Definition lists_seen (r : rname) : gstate := lists_inside r.
