(* Model of mistletoe/html_renderer.py: HtmlRenderer.render on a token tree.
   The output is a list of ITEMS and `serialize`; the model's output string is
   serialize (render ...).  Which escaping function fills each template hole,
   the text-escape chain and the URL safe set are NOT written here: they come
   from Gen/GenEscapes.v, regenerated from the source on every run.

   `sup` is the top of HtmlRenderer._suppress_ptag_stack.
   Faithful on trees shaped as the constructors build them (wf_shape); on other
   trees (a non-TableCell inside a TableRow, a header that is not a TableRow,
   a Math token under the plain HTML renderer) the Python code raises and the
   model returns something else; such trees are outside wf_shape. *)
From Coq Require Import ZArith List Bool.
From Mistletoe Require Import Base.Sx Base.PyStr Model.Fillers Model.Tree Gen.GenEscapes.
Import ListNotations.
Local Open Scope Z_scope.

Record hopts := mkHopts { esc_dq : bool; esc_sq : bool }.

Definition guard_on (o : hopts) (g : guard) : bool :=
  match g with GAlways => true | GDouble => esc_dq o | GSingle => esc_sq o end.

Definition apply_chain (o : hopts) (c : chain) (s : str) : str :=
  fold_left (fun acc e => match e with (g, a, r) => if guard_on o g then replace_char a r acc else acc end) c s.

(* HtmlRenderer.escape_html_text *)
Definition escape_html_text (o : hopts) (s : str) : str := apply_chain o html_text_chain s.

Definition fill0 (f : filler) (s : str) : str :=
  match f with FHtmlEscape => html_escape s | _ => s end.

(* HtmlRenderer.escape_url *)
Definition escape_url (s : str) : str := fill0 html_url_outer (quote html_url_safe s).

Definition fill (o : hopts) (f : filler) (s : str) : str :=
  match f with
  | FRaw => s
  | FHtmlEscape => html_escape s
  | FEscapeUrl => escape_url s
  | FEscapeText => escape_html_text o s
  end.

Inductive item :=
| IOpen (tag : str) (attrs : list (str * str))
| IClose (tag : str)
| IVoid (tag : str) (attrs : list (str * str))
| IText (s : str)     (* text as written to the output (already escaped) *)
| IRaw (s : str).     (* verbatim content of an HtmlBlock / HtmlSpan *)

Definition ser_attrs (attrs : list (str * str)) : str :=
  flat_map (fun kv => $" " ++ fst kv ++ $"=""" ++ snd kv ++ $"""") attrs.

Definition ser_item (i : item) : str :=
  match i with
  | IOpen t a => $"<" ++ t ++ ser_attrs a ++ $">"
  | IClose t => $"</" ++ t ++ $">"
  | IVoid t a => $"<" ++ t ++ ser_attrs a ++ $" />"
  | IText s => s
  | IRaw s => s
  end.
Definition serialize (l : list item) : str := flat_map ser_item l.

Definition nl : item := IText [10].

(* sep.join(elements) on item lists *)
Fixpoint join_items (sep : list item) (l : list (list item)) : list item :=
  match l with
  | [] => []
  | [x] => x
  | x :: rest => x ++ sep ++ join_items sep rest
  end.

(* HtmlRenderer.render_to_plain *)
Fixpoint to_plain (t : tok) : str :=
  let all := flat_map to_plain in
  match t with
  | RawText c | HtmlSpan c | Math c => fill0 html_plain_leaf c
  | LineBreak c _ => fill0 html_plain_leaf c
  | InlineCode a => fill0 html_plain_leaf (c_content a)
  | BlockCode c | HtmlBlock c => fill0 html_plain_leaf c
  | CodeFence a => fill0 html_plain_leaf (f_content a)
  | Strong _ ch | Emphasis _ ch | Strikethrough ch | Image _ ch | Link _ ch
  | AutoLink _ _ ch | EscapeSequence ch | Heading _ _ ch | SetextHeading _ _ ch
  | Quote ch | Paragraph ch | List _ _ ch | ListItem _ ch | Table _ _ ch
  | TableRow _ ch | TableCell _ ch | Document ch | LinkRefDefBlock ch => all ch
  | ThematicBreak _ | BlankLine | LinkRefDef _ => []
  end.

Definition title_attr (o : hopts) (f : filler) (title : str) : list (str * str) :=
  match title with [] => [] | _ => [($"title", fill o f title)] end.

Definition align_name (a : option Z) : str :=
  match a with
  | None => $"left"
  | Some 0 => $"center"
  | Some 1 => $"right"
  | Some _ => $"left"   (* UnboundLocalError in the code; excluded by wf_attrs *)
  end.

Definition last_is_paragraph (l : list tok) : bool :=
  match rev l with t :: _ => is_paragraph t | [] => false end.
Definition first_is_paragraph (l : list tok) : bool :=
  match l with t :: _ => is_paragraph t | [] => false end.

Definition heading_tag (level : Z) : str := $"h" ++ str_of_Z level.

Definition wrap (tag : str) (attrs : list (str * str)) (inner : list item) : list item :=
  IOpen tag attrs :: inner ++ [IClose tag].

(* `hdr` is the is_header / in_header argument that render_table passes down
   to render_table_row and render_table_cell for the header row; every other
   call site uses the default False. *)
Fixpoint render (o : hopts) (sup : bool) (hdr : bool) (t : tok) : list item :=
  let inner := fun (s : bool) (ch : list tok) => flat_map (render o s false) ch in
  match t with
  | RawText c => [IText (fill o html_raw_text c)]
  | Strong _ ch => wrap $"strong" [] (inner sup ch)
  | Emphasis _ ch => wrap $"em" [] (inner sup ch)
  | Strikethrough ch => wrap $"del" [] (inner sup ch)
  | InlineCode a => wrap $"code" [] [IText (fill o html_inline_code_inner (c_content a))]
  | Image a ch =>
    [IVoid $"img" ([($"src", fill o html_image_src (l_target a)); ($"alt", flat_map to_plain ch)]
                    ++ title_attr o html_image_title (l_title a))]
  | Link a ch =>
    wrap $"a" (($"href", fill o html_link_target (l_target a)) :: title_attr o html_link_title (l_title a))
         (inner sup ch)
  | AutoLink target mailto ch =>
    wrap $"a" [($"href", if mailto then $"mailto:" ++ fill o html_autolink_mailto target
                         else fill o html_autolink_target target)]
         (inner sup ch)
  | EscapeSequence ch => inner sup ch
  | LineBreak _ soft => if soft then [nl] else [IVoid $"br" []; nl]
  | HtmlSpan c => [IRaw c]
  | Math _ => []
  | Heading level _ ch | SetextHeading level _ ch => wrap (heading_tag level) [] (inner sup ch)
  | Quote ch =>
    join_items [nl] ([[IOpen $"blockquote" []]] ++ map (render o false false) ch ++ [[IClose $"blockquote"]])
  | Paragraph ch => if sup then inner sup ch else wrap $"p" [] (inner sup ch)
  | BlockCode c => wrap $"pre" [] (wrap $"code" [] [IText (fill o html_code_inner c)])
  | CodeFence a =>
    wrap $"pre" []
         (wrap $"code" (match f_language a with
                        | [] => []
                        | lang => [($"class", $"language-" ++ fill o html_code_language lang)]
                        end)
               [IText (fill o html_code_inner (f_content a))])
  | List start loose ch =>
    let tag := match start with Some _ => $"ol" | None => $"ul" end in
    let attrs := match start with
                 | Some n => if n =? 1 then [] else [($"start", str_of_Z n)]
                 | None => [] end in
    wrap tag attrs (nl :: join_items [nl] (map (render o (negb loose) false) ch) ++ [nl])
  | ListItem _ ch =>
    match ch with
    | [] => wrap $"li" [] []
    | _ => wrap $"li" []
                ((if sup && first_is_paragraph ch then [] else [nl])
                   ++ join_items [nl] (map (render o sup false) ch)
                   ++ (if sup && last_is_paragraph ch then [] else [nl]))
    end
  | Table _ header ch =>
    wrap $"table" []
         (nl :: match header with
                | Some h => wrap $"thead" [] (nl :: render o sup true h) ++ [nl]
                | None => []
                end
             ++ wrap $"tbody" [] (nl :: inner sup ch) ++ [nl])
  | TableRow _ cells => wrap $"tr" [] (nl :: flat_map (render o sup hdr) cells) ++ [nl]
  | TableCell a ch =>
    wrap (if hdr then $"th" else $"td") [($"align", align_name a)] (inner sup ch) ++ [nl]
  | ThematicBreak _ => [IVoid $"hr" []]
  | HtmlBlock c => [IRaw c]
  | Document ch =>
    let body := join_items [nl] (map (render o false false) ch) in
    match serialize body with [] => [] | _ => body ++ [nl] end
  | BlankLine | LinkRefDef _ | LinkRefDefBlock _ => []   (* not in HtmlRenderer's render_map *)
  end.

Definition render_html (o : hopts) (t : tok) : str := serialize (render o false false t).
