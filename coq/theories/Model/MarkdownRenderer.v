(* Model of mistletoe/markdown_renderer.py: span tokens -> Fragments,
   Fragments -> lines (with and without a maximum line length), block tokens
   -> lines, container prefixes, tables.  `L : option Z` is max_line_length
   (None = not specified). *)
From Coq Require Import ZArith List Bool.
From Mistletoe Require Import Base.Sx Base.PyStr Model.Tree Gen.GenTables.
Import ListNotations.
Local Open Scope Z_scope.

Definition is_space (c : Z) : bool := existsb (fun r => (fst r <=? c) && (c <=? snd r)) space_ranges.
(* str.isspace(): non-empty and every character is whitespace *)
Definition isspace (s : str) : bool := match s with [] => false | _ => forallb is_space s end.

Record frag := mkFrag { ftext : str; fwrap : bool; fhard : bool }.
Definition F (s : str) : frag := mkFrag s false false.
Definition Fw (s : str) : frag := mkFrag s true false.

(* ---------------- words ---------------- *)
(* re.split(r'\s+', text): the maximal non-whitespace pieces, with an empty
   first / last piece when the text starts / ends with whitespace *)
Fixpoint ws_split_aux (cur_rev : str) (in_ws : bool) (s : str) : list str :=
  match s with
  | [] => [rev cur_rev]
  | c :: r =>
    if is_space c then
      if in_ws then ws_split_aux [] true r else rev cur_rev :: ws_split_aux [] true r
    else ws_split_aux (c :: cur_rev) false r
  end.
Definition ws_split (s : str) : list str := ws_split_aux [] false s.

Definition nonempty (s : str) : bool := match s with [] => false | _ => true end.

(* inner loop of make_words over the items of one wordwrap fragment *)
Fixpoint feed_items (word : str) (first : bool) (items : list str) : list str * str :=
  match items with
  | [] => ([], word)
  | it :: r =>
    if first then feed_items (word ++ it) false r
    else let '(out, w) := feed_items it false r in
         ((if nonempty word then [word] else []) ++ out, w)
  end.

Definition NL : str := [10].

(* MarkdownRenderer.make_words; `word` is the word under construction *)
Fixpoint make_words_from (word : str) (frs : list frag) : list str :=
  match frs with
  | [] => if nonempty word then [word] else []
  | f :: r =>
    if fwrap f then
      let '(out, w) := feed_items word true (ws_split (ftext f)) in out ++ make_words_from w r
    else if fhard f then (word ++ removelast (ftext f)) :: NL :: make_words_from [] r
    else make_words_from (word ++ ftext f) r
  end.
Definition make_words (frs : list frag) : list str := make_words_from [] frs.

Definition is_nl (w : str) : bool := str_eqb w NL.
Definition len (s : str) : Z := Z.of_nat (length s).

(* the word loop of fragments_to_lines (max_line_length = lim) *)
Fixpoint fill_from (lim : Z) (cur : str) (ws : list str) : list str :=
  match ws with
  | [] => if nonempty cur then [cur] else []
  | w :: r =>
    if is_nl w then cur :: fill_from lim [] r
    else if negb (nonempty cur) then fill_from lim w r
    else let test := cur ++ [32] ++ w in
         if len test <=? lim then fill_from lim test r else cur :: fill_from lim w r
  end.

(* text.split('\n') *)
Fixpoint split_nl_aux (cur_rev : str) (s : str) : list str :=
  match s with
  | [] => [rev cur_rev]
  | c :: r => if c =? 10 then rev cur_rev :: split_nl_aux [] r else split_nl_aux (c :: cur_rev) r
  end.
Definition split_nl (s : str) : list str := split_nl_aux [] s.

(* the fragment loop of fragments_to_lines without a limit *)
Fixpoint plain_from (cur : str) (frs : list frag) : list str :=
  match frs with
  | [] => if nonempty cur then [cur] else []
  | f :: r =>
    if mem 10 (ftext f) then
      match split_nl (ftext f) with
      | [] => plain_from cur r                     (* impossible: split never returns [] *)
      | first :: rest =>
        (cur ++ first) :: removelast rest ++ plain_from (last rest []) r
      end
    else plain_from (cur ++ ftext f) r
  end.

Definition fragments_to_lines (L : option Z) (frs : list frag) : list str :=
  match L with
  | None => plain_from [] frs
  | Some lim => fill_from lim [] (make_words frs)
  end.

(* MarkdownRenderer.prefix_lines *)
Fixpoint prefix_from (is_first : bool) (p q : str) (lines : list str) : list str :=
  match lines with
  | [] => []
  | l :: r =>
    let prefixed := (if is_first then p else q) ++ l in
    (* yield prefixed if line or not prefixed.isspace() else "" *)
    (if nonempty l || negb (isspace prefixed) then prefixed else []) :: prefix_from false p q r
  end.
Definition prefix_lines (lines : list str) (p : str) (q : option str) : list str :=
  let q' := match q with Some (c :: s) => c :: s | _ => p end in   (* following_line_prefix or first_line_prefix *)
  prefix_from true p q' lines.

Definition spaces (n : Z) : str := repeat 32 (Z.to_nat n).
Definition repeat_str (s : str) (n : Z) : str := concat (repeat s (Z.to_nat n)).

(* ---------------- span tokens -> fragments ---------------- *)
Definition first_content (ch : list tok) : str :=
  match ch with RawText c :: _ => c | _ => [] end.

Definition title_frags (title delim : str) : list frag :=
  match title with
  | [] => []
  | _ => [Fw [32]; F delim; Fw title; F (if str_eqb delim $"(" then $")" else delim)]
  end.

Fixpoint frags (t : tok) : list frag :=
  let all := flat_map frags in
  let embed := fun (lead : frag) (ch : list tok) (trail : frag) => lead :: all ch ++ [trail] in
  let link_or_image := fun (a : link_attrs) (ch : list tok) =>
    embed (F $"[") ch (F $"]") ++
    (if str_eqb (l_dest_type a) $"uri" || str_eqb (l_dest_type a) $"angle_uri" then
       [F $"("; F (if str_eqb (l_dest_type a) $"angle_uri" then $"<" ++ l_target a ++ $">" else l_target a)]
         ++ title_frags (l_title a) (l_title_delim a) ++ [F $")"]
     else if str_eqb (l_dest_type a) $"full" then
       [F $"["; Fw (match l_label a with Some l => l | None => [] end); F $"]"]
     else if str_eqb (l_dest_type a) $"collapsed" then [F $"[]"]
     else []) in
  match t with
  | RawText c => [Fw c]
  | Strong d ch => embed (F (d ++ d)) ch (F (d ++ d))
  | Emphasis d ch => embed (F d) ch (F d)
  | InlineCode a => [F (c_delimiter a ++ c_padding a); Fw (c_content a); F (c_padding a ++ c_delimiter a)]
  | Strikethrough ch => embed (F $"~~") ch (F $"~~")
  | Image a ch => F $"!" :: link_or_image a ch
  | Link a ch => link_or_image a ch
  | AutoLink _ _ ch => [F ($"<" ++ first_content ch ++ $">")]
  | EscapeSequence ch => [F ($"\" ++ first_content ch)]
  | LineBreak c soft => [mkFrag (c ++ NL) soft (negb soft)]
  | HtmlSpan c => [F c]
  | LinkRefDef a =>
    [F $"["; Fw (d_label a); Fw $"]: ";
     F (if str_eqb (d_dest_type a) $"angle_uri" then $"<" ++ d_dest a ++ $">" else d_dest a)]
      ++ title_frags (d_title a) (d_title_delim a)
  | _ => []        (* block tokens / Math have no span renderer here *)
  end.

Definition span_to_lines (L : option Z) (ch : list tok) : list str :=
  fragments_to_lines L (flat_map frags ch).

(* ---------------- tables ---------------- *)
Definition first_or_empty (l : list str) : str := match l with x :: _ => x | [] => [] end.

Definition row_text (row : tok) : list str :=
  match row with
  | TableRow _ cells =>
    map (fun c => match c with
                  | TableCell _ ch => first_or_empty (span_to_lines None ch)
                  | _ => []
                  end) cells
  | _ => []
  end.

Fixpoint zmax_list (a b : list Z) : list Z :=   (* elementwise max, length of the longer *)
  match a, b with
  | [], _ => b
  | _, [] => a
  | x :: a', y :: b' => Z.max x y :: zmax_list a' b'
  end.

(* calculate_table_column_widths *)
Definition col_widths (content : list (list str)) : list Z :=
  fold_left (fun acc row => zmax_list acc (map (fun t => Z.max 3 (len t)) row)) content [].

Definition nth_align (col_align : list (option Z)) (i : nat) : option Z := nth i col_align None.

Definition sep_text (i : nat) (w : Z) (col_align : list (option Z)) : str :=
  let a := nth_align col_align i in
  (match a with Some 0 => $":" | _ => $"-" end) ++ repeat 45 (Z.to_nat (w - 2))
    ++ (match a with Some 0 | Some 1 => $":" | _ => $"-" end).

Fixpoint mapi_from {A B} (i : nat) (f : nat -> A -> B) (l : list A) : list B :=
  match l with [] => [] | x :: r => f i x :: mapi_from (S i) f r end.

Definition pad (a : option Z) (text : str) (w : Z) : str :=
  let n := w - len text in
  if n <=? 0 then text
  else match a with
       | None => text ++ spaces n
       | Some 0 => spaces (n / 2) ++ text ++ spaces (n - n / 2)
       | Some _ => spaces n ++ text
       end.

Definition row_line (col_text : list str) (widths : list Z) (col_align : list (option Z)) : str :=
  $"| " ++ join $" | " (mapi_from 0 (fun i w => pad (nth_align col_align i) (nth i col_text []) w) widths) ++ $" |".

(* ---------------- block tokens -> lines ---------------- *)
Record mopts := mkMopts { normalize_ws : bool }.

Definition content_lines (content : str) : list str := split_nl (removelast content).   (* content[:-1].split('\n') *)

Definition or_blank (l : list str) : list str := match l with [] => [[]] | _ => l end.   (* lines or [''] *)

Definition sub_opt (L : option Z) (n : Z) : option Z := match L with Some l => Some (l - n) | None => None end.

Fixpoint block_lines (o : mopts) (L : option Z) (t : tok) : list str :=
  let blocks := fun (L' : option Z) (ch : list tok) => flat_map (block_lines o L') ch in
  match t with
  | Document ch => blocks L ch
  | Heading level closing ch =>
    let text := first_or_empty (span_to_lines None ch) in
    [repeat 35 (Z.to_nat level)
       ++ (if nonempty text then [32] ++ text else [])
       ++ (if nonempty closing then [32] ++ closing else [])]
  | SetextHeading _ underline ch => span_to_lines L ch ++ [underline]
  | Quote ch => prefix_lines (blocks (sub_opt L 2) ch) $"> " None
    (* `lines or ['']` in render_quote never takes the second branch: `lines` is a generator object *)
  | Paragraph ch => span_to_lines L ch
  | BlockCode c => prefix_lines (content_lines c) $"    " None
  | CodeFence a =>
    let ind := spaces (f_indentation a) in
    (ind ++ f_delimiter a ++ f_info a) ::
    (if nonempty (f_content a) then prefix_lines (content_lines (f_content a)) ind None else []) ++ [ind ++ f_delimiter a]
  | List _ _ ch => blocks L ch
  | ListItem a ch =>
    let prepend := if normalize_ws o then len (i_leader a) + 1 else i_prepend a in
    let indentation := if normalize_ws o then 0 else i_indentation a in
    prefix_lines (or_blank (blocks (sub_opt L prepend) ch))
                 (spaces indentation ++ i_leader a ++ spaces (prepend - len (i_leader a) - indentation))
                 (Some (spaces prepend))
  | Table ca header ch =>
    let content := (match header with Some h => row_text h | None => [] end) :: [] :: map row_text ch in
    let widths := col_widths content in
    let sep := mapi_from 0 (fun i w => sep_text i w ca) widths in
    match content with
    | hd :: _ :: rows => row_line hd widths ca :: row_line sep widths ca :: map (fun r => row_line r widths ca) rows
    | _ => []
    end
  | ThematicBreak line => [line]
  | HtmlBlock c => split_nl c
  | LinkRefDefBlock ch => flat_map (fun c => span_to_lines L [c]) ch
  | BlankLine => [[]]
  | _ => []     (* TableRow / TableCell are rendered by render_table; span tokens: see render_md *)
  end.

Definition is_block (t : tok) : bool :=
  match t with
  | Heading _ _ _ | SetextHeading _ _ _ | Quote _ | Paragraph _ | BlockCode _ | CodeFence _ | List _ _ _
  | ListItem _ _ | Table _ _ _ | TableRow _ _ | TableCell _ _ | ThematicBreak _ | HtmlBlock _ | Document _
  | BlankLine | LinkRefDefBlock _ => true
  | _ => false
  end.

(* MarkdownRenderer.render *)
Definition render_md (o : mopts) (L : option Z) (t : tok) : str :=
  let lines := if is_block t then block_lines o L t else span_to_lines L [t] in
  flat_map (fun l => l ++ NL) lines.
