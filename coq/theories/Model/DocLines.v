(* Model of Document.__init__'s line preparation (block_token.py) and of the
   three ways a text reaches it.
     str            : lines = text.splitlines(keepends=True)
     list of lines  : as given
     open text file : iterating the file yields the '\n'-terminated lines
                      (ASSUMED of CPython: a text file whose content is s,
                      free of '\r', iterates as split_keep_lf s)
   then  lines = [line if line.endswith('\n') else line + '\n' for line in lines]. *)
From Coq Require Import ZArith List Bool.
From Mistletoe Require Import Base.Sx Base.PyStr.
Import ListNotations.
Local Open Scope Z_scope.

(* str.splitlines boundaries: \n \v \f \r \x1c \x1d \x1e \x85      (and \r\n as one) *)
Definition is_brk (c : Z) : bool :=
  (c =? 10) || (c =? 11) || (c =? 12) || (c =? 13) || (c =? 28) || (c =? 29) || (c =? 30) ||
  (c =? 133) || (c =? 8232) || (c =? 8233).

Fixpoint splitlines_aux (cur_rev : str) (s : str) : list str :=
  match s with
  | [] => match cur_rev with [] => [] | _ => [rev cur_rev] end
  | c :: r =>
    if c =? 13 then
      match r with
      | 10 :: r' => rev (10 :: 13 :: cur_rev) :: splitlines_aux [] r'
      | _ => rev (13 :: cur_rev) :: splitlines_aux [] r
      end
    else if is_brk c then rev (c :: cur_rev) :: splitlines_aux [] r
    else splitlines_aux (c :: cur_rev) r
  end.
(* text.splitlines(keepends=True) *)
Definition splitlines_keep (s : str) : list str := splitlines_aux [] s.

Fixpoint split_keep_aux (cur_rev : str) (s : str) : list str :=
  match s with
  | [] => match cur_rev with [] => [] | _ => [rev cur_rev] end
  | c :: r => if c =? 10 then rev (c :: cur_rev) :: split_keep_aux [] r else split_keep_aux (c :: cur_rev) r
  end.
(* lines of a text file / of io.StringIO(s) *)
Definition split_keep_lf (s : str) : list str := split_keep_aux [] s.

Fixpoint split_aux (cur_rev : str) (s : str) : list str :=
  match s with
  | [] => [rev cur_rev]
  | c :: r => if c =? 10 then rev cur_rev :: split_aux [] r else split_aux (c :: cur_rev) r
  end.
(* text.split('\n') : the lines WITHOUT their terminators *)
Definition split_lf (s : str) : list str := split_aux [] s.

Definition ends_with_lf (s : str) : bool := match rev s with 10 :: _ => true | _ => false end.
Definition add_nl (line : str) : str := if ends_with_lf line then line else line ++ [10].

(* the list handed to the block tokenizer *)
Definition doc_lines_of_list (lines : list str) : list str := map add_nl lines.
Definition doc_lines_of_str (s : str) : list str := doc_lines_of_list (splitlines_keep s).
Definition doc_lines_of_file (s : str) : list str := doc_lines_of_list (split_keep_lf s).

Definition only_lf (s : str) : bool := forallb (fun c => (c =? 10) || negb (is_brk c)) s.
