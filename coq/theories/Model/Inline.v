(* Model of span_token.tokenize_inner: for each active span token type (list from
   Gen/GenConfig.v) its find(), the candidate resolution of span_tokenizer
   (Model/SpanTokenizer.v), and the token constructors of span_token.py. *)
From Coq Require Import ZArith List Bool.
From Mistletoe Require Import Base.Sx Base.PyStr Base.PyText Gen.GenTables Re.ReMatch Gen.GenRegex Gen.GenConfig
     Model.SpanTokenizer Model.Tree Model.Unescape Model.CoreTokens.
Import ListNotations.
Local Open Scope Z_scope.

(* what a candidate is built from *)
Inductive csrc :=
| CRe (k : span_kind) (s0 s1 : mst)        (* a regex match *)
| CCore (m : mobj).                         (* a core_tokens.MatchObj *)

Definition re_of (k : span_kind) : re * flags :=
  match k with
  | SK_EscapeSequence => (re_span_token_EscapeSequence_pattern, fl_span_token_EscapeSequence_pattern)
  | SK_Strikethrough => (re_span_token_Strikethrough_pattern, fl_span_token_Strikethrough_pattern)
  | SK_AutoLink => (re_span_token_AutoLink_pattern, fl_span_token_AutoLink_pattern)
  | SK_LineBreak => (re_span_token_LineBreak_pattern, fl_span_token_LineBreak_pattern)
  | SK_HtmlSpan => (re_span_token_HtmlSpan_pattern, fl_span_token_HtmlSpan_pattern)
  | SK_Math => (re_latex_token_Math_pattern, fl_latex_token_Math_pattern)
  | SK_GithubWiki => (re_github_wiki_GithubWiki_pattern, fl_github_wiki_GithubWiki_pattern)
  | SK_XWikiBlockMacroStart => (re_span_token_XWikiBlockMacroStart_pattern, fl_span_token_XWikiBlockMacroStart_pattern)
  | SK_XWikiBlockMacroEnd => (re_span_token_XWikiBlockMacroEnd_pattern, fl_span_token_XWikiBlockMacroEnd_pattern)
  | _ => (Eps, mkFlags false false)
  end.

Definition grp_span (k : span_kind) (s0 s1 : mst) (g : nat) : Z * Z :=
  match g with
  | O => (pos s0, pos s1)
  | _ => match group_span s1 g with Some p => p | None => (-1, -1) end
  end.

(* the candidates of one token type, in the order its find() yields them;
   `code` = core_tokens._code_matches as left by CoreTokens.find *)
Definition find_kind (k : span_kind) (s : str) (fn : footnotes) (code : list (mst * mst)) : list csrc * list (mst * mst) :=
  match k with
  | SK_CoreTokens => let '(ms, cm) := find_core_tokens s fn in (map CCore ms, cm)
  | SK_InlineCode => (map (fun p => CRe SK_InlineCode (fst p) (snd p)) code, [])   (* takes and empties the list *)
  | SK_RawText => ([], code)
  | _ => let '(r, fl) := re_of k in (map (fun p => CRe k (fst p) (snd p)) (finditer fl r s), code)
  end.

Fixpoint find_all (types : list span_kind) (s : str) (fn : footnotes) (code : list (mst * mst)) : list csrc :=
  match types with
  | [] => []
  | k :: r => let '(cs, code') := find_kind k s fn code in cs ++ find_all r s fn code'
  end.

Definition field_span (m : mobj) (g : nat) : Z * Z :=
  match g with
  | O => (m_start m, m_end m)
  | S g' => match nth_error (m_fields m) g' with Some (a, b, _) => (a, b) | None => (-1, -1) end
  end.
Definition field_text (m : mobj) (g : nat) : str :=
  match nth_error (m_fields m) (pred g) with Some (_, _, t) => t | None => [] end.

Definition cand_of (id : Z) (c : csrc) : cand :=
  match c with
  | CRe k s0 s1 =>
    let '(a, b) := grp_span k s0 s1 (sk_parse_group k) in
    mkCand (pos s0) (pos s1) a b (sk_precedence k) (sk_parse_inner k) id
  | CCore m =>
    let '(a, b) := field_span m (sk_parse_group SK_CoreTokens) in
    mkCand (m_start m) (m_end m) a b (sk_precedence SK_CoreTokens) (sk_parse_inner SK_CoreTokens) id
  end.

Fixpoint number_from {A} (i : Z) (l : list A) : list (Z * A) :=
  match l with [] => [] | x :: r => (i, x) :: number_from (i + 1) r end.

Definition gtext (s1 : mst) (g : nat) : str := match group_text s1 g with Some t => t | None => [] end.

Definition isspace_str (s : str) : bool := match s with [] => false | _ => forallb is_space_c s end.

(* the token constructors (span_token.py): tokens that do not parse their content *)
Definition build_leaf (c : csrc) : tok :=
  match c with
  | CRe SK_EscapeSequence _ s1 => EscapeSequence [RawText (gtext s1 1)]
  | CRe SK_AutoLink _ s1 =>
    let content := gtext s1 1 in
    AutoLink content (mem 64 content && negb (mem 58 content)) [RawText content]
  | CRe SK_InlineCode _ s1 =>
    let content := replace_char 10 [32] (gtext s1 2) in
    let padded := negb (isspace_str content) && startswith [32] content && endswith [32] content in
    InlineCode (mkCode (gtext s1 1) (if padded then [32] else [])
                       (if padded then removelast (tl content) else content))
  | CRe SK_LineBreak _ s1 =>
    let content := gtext s1 1 in
    LineBreak content (negb (startswith $"  " content || startswith $"\" content))
  | CRe SK_HtmlSpan s0 s1 => HtmlSpan (whole_text s0 s1)
  | CRe SK_Math s0 s1 => Math (whole_text s0 s1)
  | _ => RawText []
  end.

(* tokens with parse_inner = True *)
Definition build_inner (c : csrc) (children : list tok) : tok :=
  match c with
  | CRe SK_Strikethrough _ _ => Strikethrough children
  | CCore m =>
    if str_eqb (m_type m) $"Strong" then Strong (m_delimiter m) children
    else if str_eqb (m_type m) $"Emphasis" then Emphasis (m_delimiter m) children
    else
      let a := mkLink (escape_strip (strip (field_text m 2))) (escape_strip (field_text m 3))
                      (m_dest_type m) (m_label m) (m_title_delim m) in
      if str_eqb (m_type m) $"Image" then Image a children else Link a children
  | _ => RawText []
  end.

Definition src_at (srcs : list csrc) (id : Z) : csrc := nth (Z.to_nat id) srcs (CRe SK_RawText (start_at [] []) (start_at [] [])).

Fixpoint build_otok (s : str) (srcs : list csrc) (o : otok) : tok :=
  match o with
  | ORaw a b => RawText (unescape (substr s a b))
  | OTok c None => build_leaf (src_at srcs (cid c))
  | OTok c (Some ch) => build_inner (src_at srcs (cid c)) (map (build_otok s srcs) ch)
  end.

(* span_token.tokenize_inner(content) under the given token list and footnotes *)
Definition tokenize_inner (types : list span_kind) (fn : footnotes) (s : str) : list tok :=
  let srcs := find_all (removelast types) s fn [] in
  let cands := map (fun p => cand_of (fst p) (snd p)) (number_from 0 srcs) in
  map (build_otok s srcs) (tokenize cands (slen s)).
