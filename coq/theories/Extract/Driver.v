(* Single entry point of the extracted model: one request in, one reply out,
   both generic wire values (Base/Sx.v).  A request is (op arg ...). *)
From Coq Require Import ZArith List Bool.
From Mistletoe Require Import Base.Sx Base.PyStr Model.SpanTokenizer Model.Tree Model.TreeWire
  Model.HtmlRenderer Spec.HtmlSpec Model.LatexRenderer Spec.LatexSpec.
Import ListNotations.
Local Open Scope Z_scope.

(* ---- X-span : span_tokenizer.tokenize on a candidate list ---- *)
Definition cand_of_sx (x : sx) : cand :=
  mkCand (z_of_sx (sx_nth x 0)) (z_of_sx (sx_nth x 1)) (z_of_sx (sx_nth x 2))
         (z_of_sx (sx_nth x 3)) (z_of_sx (sx_nth x 4)) (bool_of_sx (sx_nth x 5))
         (z_of_sx (sx_nth x 6)).

Fixpoint sx_of_otok (o : otok) : sx :=
  match o with
  | ORaw a b => SxL [SxZ 0; SxZ a; SxZ b]
  | OTok c None => SxL [SxZ 1; SxZ (cid c); SxZ 0; SxL []]
  | OTok c (Some ch) => SxL [SxZ 1; SxZ (cid c); SxZ 1; SxL (map sx_of_otok ch)]
  end.

Definition op_tokenize (req : sx) : sx :=
  let len := z_of_sx (sx_nth req 1) in
  let cands := map cand_of_sx (l_of_sx (sx_nth req 2)) in
  SxL (map sx_of_otok (tokenize cands len)).

(* ---- X-html : HtmlRenderer.render on a wire tree ---- *)
Definition hopts_of (req : sx) : hopts := mkHopts (bool_of_sx (sx_nth req 1)) (bool_of_sx (sx_nth req 2)).
Definition op_html (req : sx) : sx :=
  sx_of_str (render_html (hopts_of req) (tok_of_sx (sx_nth req 3))).

(* ---- X-str : the escaping helpers ---- *)
Definition op_str (req : sx) : sx :=
  let o := mkHopts (bool_of_sx (sx_nth req 2)) (bool_of_sx (sx_nth req 3)) in
  let s := str_of_sx (sx_nth req 4) in
  sx_of_str (match z_of_sx (sx_nth req 1) with
             | 0 => html_escape s
             | 1 => escape_url s
             | 2 => escape_html_text o s
             | _ => s
             end).

Definition op_check_html (req : sx) : sx := SxZ (check_html (str_of_sx (sx_nth req 1))).

(* ---- X-latex ---- *)
Definition op_latex (req : sx) : sx :=
  match render_latex (tok_of_sx (sx_nth req 1)) with
  | Some s => SxL [SxZ 1; sx_of_str s]
  | None => SxL [SxZ 0]
  end.
Definition op_check_latex (req : sx) : sx := SxZ (check_latex (str_of_sx (sx_nth req 1))).
Definition op_latex_str (req : sx) : sx :=
  let s := str_of_sx (sx_nth req 2) in
  sx_of_str (match z_of_sx (sx_nth req 1) with 0 => latex_escape s | _ => latex_escape_url s end).

Definition dispatch (req : sx) : sx :=
  match z_of_sx (sx_nth req 0) with
  | 16 => op_tokenize req
  | 8 => op_html req
  | 80 => op_str req
  | 81 => op_check_html req
  | 17 => op_latex req
  | 170 => op_latex_str req
  | 171 => op_check_latex req
  | _ => SxL [SxZ (-1)]
  end.
