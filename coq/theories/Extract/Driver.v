(* Single entry point of the extracted model: one request in, one reply out,
   both generic wire values (Base/Sx.v).  A request is (op arg ...). *)
From Coq Require Import ZArith List Bool.
From Mistletoe Require Import Base.Sx Base.PyStr Model.SpanTokenizer Model.Tree Model.TreeWire
  Model.HtmlRenderer Spec.HtmlSpec Model.LatexRenderer Spec.LatexSpec Model.Contrib Model.DocLines Model.MarkdownRenderer Re.ReMatch Gen.GenRegex Gen.GenConfig Model.CoreTokens Model.Inline Model.Unescape Model.Block Model.Build Model.Parser Spec.Delims Model.Traverse Proofs.Shape Proofs.Independence Proofs.Independence2 Proofs.ClosedLast.
Import ListNotations.
Local Open Scope Z_scope.

(* ---- X-span : span_tokenizer.tokenize on a candidate list ---- *)
Definition cand_of_sx (x : sx) : cand :=
  mkCand (z_of_sx (sx_nth x 0)) (z_of_sx (sx_nth x 1)) (z_of_sx (sx_nth x 2))
         (z_of_sx (sx_nth x 3)) (z_of_sx (sx_nth x 4)) (bool_of_sx (sx_nth x 5))
         (z_of_sx (sx_nth x 6)).

Fixpoint sx_of_otok (o : otok) : sx :=
  match o with
  | ORaw a b => SxL [SxZ 0; SxZ a; SxZ b]
  | OTok c None => SxL [SxZ 1; SxZ (cid c); SxZ 0; SxL []]
  | OTok c (Some ch) => SxL [SxZ 1; SxZ (cid c); SxZ 1; SxL (map sx_of_otok ch)]
  end.

Definition op_tokenize (req : sx) : sx :=
  let len := z_of_sx (sx_nth req 1) in
  let cands := map cand_of_sx (l_of_sx (sx_nth req 2)) in
  SxL (map sx_of_otok (tokenize cands len)).

(* ---- X-html : HtmlRenderer.render on a wire tree ---- *)
Definition hopts_of (req : sx) : hopts := mkHopts (bool_of_sx (sx_nth req 1)) (bool_of_sx (sx_nth req 2)).
Definition op_html (req : sx) : sx :=
  sx_of_str (render_html (hopts_of req) (tok_of_sx (sx_nth req 3))).

(* ---- X-str : the escaping helpers ---- *)
Definition op_str (req : sx) : sx :=
  let o := mkHopts (bool_of_sx (sx_nth req 2)) (bool_of_sx (sx_nth req 3)) in
  let s := str_of_sx (sx_nth req 4) in
  sx_of_str (match z_of_sx (sx_nth req 1) with
             | 0 => html_escape s
             | 1 => escape_url s
             | 2 => escape_html_text o s
             | _ => s
             end).

Definition op_check_html (req : sx) : sx := SxZ (check_html (str_of_sx (sx_nth req 1))).

(* ---- X-latex ---- *)
Definition op_latex (req : sx) : sx :=
  match render_latex (tok_of_sx (sx_nth req 1)) with
  | Some s => SxL [SxZ 1; sx_of_str s]
  | None => SxL [SxZ 0]
  end.
Definition op_check_latex (req : sx) : sx := SxZ (check_latex (str_of_sx (sx_nth req 1))).
Definition op_latex_str (req : sx) : sx :=
  let s := str_of_sx (sx_nth req 2) in
  sx_of_str (match z_of_sx (sx_nth req 1) with 0 => latex_escape s | _ => latex_escape_url s end).

(* ---- X-contrib : (18 kind dq sq tree ((lang code result) ...)) ---- *)
Definition rkind_of (z : Z) : rkind :=
  match z with 1 => KToc | 2 => KWiki | 3 => KMathJax | 4 => KPygments | _ => KHtml end.
Fixpoint hl_lookup (tbl : list sx) (lang code : str) : str :=
  match tbl with
  | [] => []
  | e :: r => if str_eqb (str_of_sx (sx_nth e 0)) lang && str_eqb (str_of_sx (sx_nth e 1)) code
              then str_of_sx (sx_nth e 2) else hl_lookup r lang code
  end.
Definition op_contrib (req : sx) : sx :=
  let hl := hl_lookup (l_of_sx (sx_nth req 5)) in
  sx_of_str (render_contrib hl (rkind_of (z_of_sx (sx_nth req 1)))
                            (mkHopts (bool_of_sx (sx_nth req 2)) (bool_of_sx (sx_nth req 3)))
                            (tok_of_sx (sx_nth req 4))).

(* ---- X-toc : (19 depth omit dq sq tree) -> (((level content) ...) (toc lines) (tokens of the toc lines)) ---- *)
Definition op_toc (req : sx) : sx :=
  let cfg := mkTocCfg (z_of_sx (sx_nth req 1)) (bool_of_sx (sx_nth req 2)) in
  let o := mkHopts (bool_of_sx (sx_nth req 3)) (bool_of_sx (sx_nth req 4)) in
  let hs := toc_headings cfg [] o (tok_of_sx (sx_nth req 5)) in
  SxL [SxL (map (fun e => SxL [SxZ (fst e); sx_of_str (snd e)]) hs);
       SxL (map sx_of_str (toc_lines hs));
       SxL (map sx_of_tok (toc_tokens [] (toc_lines hs)))].
Definition op_strip_tags (req : sx) : sx := sx_of_str (strip_tags (str_of_sx (sx_nth req 1))).

(* ---- X-lines : (15 form text) ---- *)
Definition op_lines (req : sx) : sx :=
  let s := str_of_sx (sx_nth req 2) in
  SxL (map sx_of_str (match z_of_sx (sx_nth req 1) with
                      | 0 => doc_lines_of_str s
                      | 1 => doc_lines_of_file s
                      | _ => doc_lines_of_list (split_lf s)
                      end)).

(* ---- X-md : (9 normalize (L)|() tree) ; X-wrap : (10 (L)|() ((text wrap hard) ...)) ---- *)
Definition optz (x : sx) : option Z := match x with SxL [SxZ z] => Some z | _ => None end.
Definition op_md (req : sx) : sx :=
  sx_of_str (render_md (mkMopts (bool_of_sx (sx_nth req 1))) (optz (sx_nth req 2)) (tok_of_sx (sx_nth req 3))).
Definition frag_of_sx (x : sx) : frag :=
  mkFrag (str_of_sx (sx_nth x 0)) (bool_of_sx (sx_nth x 1)) (bool_of_sx (sx_nth x 2)).
Definition op_wrap (req : sx) : sx :=
  let frs := map frag_of_sx (l_of_sx (sx_nth req 2)) in
  SxL [SxL (map sx_of_str (make_words frs)); SxL (map sx_of_str (fragments_to_lines (optz (sx_nth req 1)) frs))].
Definition op_prefix (req : sx) : sx :=
  SxL (map sx_of_str (prefix_lines (map str_of_sx (l_of_sx (sx_nth req 1))) (str_of_sx (sx_nth req 2))
                                   (match sx_nth req 3 with SxL [q] => Some (str_of_sx q) | _ => None end))).

(* ---- X-re : (30 pattern_index mode ngroups text) ---- *)
Definition sx_of_match (ng : nat) (p : mst * mst) : sx :=
  SxL (SxZ (pos (fst p)) :: SxZ (pos (snd p)) ::
       map (fun i => match group_span (snd p) i with
                     | Some (a, b) => SxL [SxZ a; SxZ b]
                     | None => SxL [SxZ (-1); SxZ (-1)]
                     end) (seq 1 ng)).
Definition op_re (req : sx) : sx :=
  let text := str_of_sx (sx_nth req 4) in
  let ng := Z.to_nat (z_of_sx (sx_nth req 3)) in
  match nth_error all_patterns (Z.to_nat (z_of_sx (sx_nth req 1))) with
  | None => SxL [SxZ (-1)]
  | Some (r, fl) =>
    let s0 := start_at [] text in
    match z_of_sx (sx_nth req 2) with
    | 0 => SxL (map (sx_of_match ng) (finditer fl r text))
    | 1 => match match_here fl r s0 with Some s1 => SxL [sx_of_match ng (s0, s1)] | None => SxL [] end
    | 2 => match fullmatch_here fl r s0 with Some s1 => SxL [sx_of_match ng (s0, s1)] | None => SxL [] end
    | _ => match search fl r s0 with Some p => SxL [sx_of_match ng p] | None => SxL [] end
    end
  end.

(* ---- X-inline : (31 config ((label dest title) ...) text) ---- *)
Definition span_cfg (z : Z) : list span_kind :=
  match z with
  | 0 => span_types_html | 1 => span_types_html_nohtml | 2 => span_types_markdown | 3 => span_types_latex
  | 4 => span_types_mathjax | _ => span_types_default
  end.
Definition fn_of_sx (x : sx) : footnotes :=
  map (fun e => (str_of_sx (sx_nth e 0), (str_of_sx (sx_nth e 1), str_of_sx (sx_nth e 2)))) (l_of_sx x).
Definition op_inline (req : sx) : sx :=
  SxL (map sx_of_tok (tokenize_inner (span_cfg (z_of_sx (sx_nth req 1))) (fn_of_sx (sx_nth req 2)) (str_of_sx (sx_nth req 3)))).
Definition op_unescape (req : sx) : sx :=
  sx_of_str (match z_of_sx (sx_nth req 1) with
             | 0 => unescape (str_of_sx (sx_nth req 2))
             | 1 => escape_strip (str_of_sx (sx_nth req 2))
             | _ => normalize_label (str_of_sx (sx_nth req 2))
             end).

(* ---- X-doc : (40 cfg text) -> (tree ((key dest title) ...) (line numbers)) ; (41 cfg dq sq text) -> html ---- *)
Definition pcfg_of (z : Z) : pconfig :=
  match z with 0 => cfg_html | 1 => cfg_html_nohtml | 2 => cfg_markdown | 3 => cfg_latex | 4 => cfg_mathjax | _ => cfg_default end.
Definition op_doc (req : sx) : sx :=
  let '(t, fn, ls) := parse_document (pcfg_of (z_of_sx (sx_nth req 1))) (str_of_sx (sx_nth req 2)) in
  SxL [sx_of_tok t;
       SxL (map (fun e => SxL [sx_of_str (fst e); sx_of_str (fst (snd e)); sx_of_str (snd (snd e))]) fn);
       SxL (map SxZ ls)].
Definition op_markdown_html (req : sx) : sx :=
  sx_of_str (markdown_html (mkHopts (bool_of_sx (sx_nth req 2)) (bool_of_sx (sx_nth req 3)))
                           (negb (Z.eqb (z_of_sx (sx_nth req 1)) 1)) (str_of_sx (sx_nth req 4))).

(* ---- C05 : (50 cfg textA) -> the hypotheses of the independence theorems, evaluated on A:
        (stable_run4, closed_last, stable_run3, closed_run, stable_run5, every line ends with its only newline) ---- *)
Definition op_c05_flags (req : sx) : sx :=
  let cfg := pcfg_of (z_of_sx (sx_nth req 1)) in
  let A := doc_lines_of_str (str_of_sx (sx_nth req 2)) in
  let f := depth_fuel A in
  let rec := tokenize_block (cfg_block cfg) f in
  let b2z := fun (b : bool) => SxZ (if b then 1 else 0) in
  SxL [b2z (stable_run4 (cfg_block cfg) rec (S (length A)) A 1 (mkPs true));
       b2z (closed_last (entries (tokenize_block (cfg_block cfg) (S f) A 1 (mkPs true))));
       b2z (stable_run3 (cfg_block cfg) rec (S (length A)) A 1 (mkPs true));
       b2z (closed_run (cfg_block cfg) rec (S (length A)) A 1 (mkPs true));
       b2z (stable_run5 (cfg_block cfg) rec (S (length A)) A 1 (mkPs true));
       b2z (forallb (fun l => match rev l with 10 :: t => negb (mem 10 t) | _ => false end) A)].

(* ---- C06 : (60 text) -> specification algorithm's rendering ---- *)
Definition op_spec_emph (req : sx) : sx := sx_of_str (spec_emphasis (str_of_sx (sx_nth req 1))).

(* ---- C12 : (12 utree (allowed labels)|() (limit)|() include) ; (120 tree) -> wf_shape ---- *)
Fixpoint utree_of_sx (x : sx) : utree :=
  match x with
  | SxL [SxZ l; SxL ch] => UT l (map utree_of_sx ch)
  | _ => UT 0 []
  end.
Definition op_traverse (req : sx) : sx :=
  let t := utree_of_sx (sx_nth req 1) in
  let keep := match sx_nth req 2 with
              | SxL [SxL labels] => fun u => existsb (Z.eqb (ulabel u)) (map z_of_sx labels)
              | _ => fun _ => true
              end in
  let limit := match sx_nth req 3 with SxL [SxZ z] => Some (Z.to_nat z) | _ => None end in
  SxL (map (fun x => SxL [SxL (map (fun i => SxZ (Z.of_nat i)) (rev (fst (fst x)))); SxZ (ulabel (snd (fst x))); SxZ (Z.of_nat (snd x))])
           (traverse t keep limit (bool_of_sx (sx_nth req 4)))).
Definition op_wf_shape (req : sx) : sx := sx_of_bool (wf_shape (tok_of_sx (sx_nth req 1))).

Definition dispatch (req : sx) : sx :=
  match z_of_sx (sx_nth req 0) with
  | 16 => op_tokenize req
  | 8 => op_html req
  | 80 => op_str req
  | 81 => op_check_html req
  | 17 => op_latex req
  | 30 => op_re req
  | 12 => op_traverse req
  | 120 => op_wf_shape req
  | 60 => op_spec_emph req
  | 40 => op_doc req
  | 50 => op_c05_flags req
  | 41 => op_markdown_html req
  | 31 => op_inline req
  | 32 => op_unescape req
  | 9 => op_md req
  | 10 => op_wrap req
  | 101 => op_prefix req
  | 15 => op_lines req
  | 18 => op_contrib req
  | 19 => op_toc req
  | 190 => op_strip_tags req
  | 170 => op_latex_str req
  | 171 => op_check_latex req
  | _ => SxL [SxZ (-1)]
  end.
