(* Single entry point of the extracted model: one request in, one reply out,
   both generic wire values (Base/Sx.v).  A request is (op arg ...). *)
From Coq Require Import ZArith List Bool.
From Mistletoe Require Import Base.Sx Model.SpanTokenizer.
Import ListNotations.
Local Open Scope Z_scope.

(* ---- X-span : span_tokenizer.tokenize on a candidate list ---- *)
Definition cand_of_sx (x : sx) : cand :=
  mkCand (z_of_sx (sx_nth x 0)) (z_of_sx (sx_nth x 1)) (z_of_sx (sx_nth x 2))
         (z_of_sx (sx_nth x 3)) (z_of_sx (sx_nth x 4)) (bool_of_sx (sx_nth x 5))
         (z_of_sx (sx_nth x 6)).

Fixpoint sx_of_otok (o : otok) : sx :=
  match o with
  | ORaw a b => SxL [SxZ 0; SxZ a; SxZ b]
  | OTok c None => SxL [SxZ 1; SxZ (cid c); SxZ 0; SxL []]
  | OTok c (Some ch) => SxL [SxZ 1; SxZ (cid c); SxZ 1; SxL (map sx_of_otok ch)]
  end.

Definition op_tokenize (req : sx) : sx :=
  let len := z_of_sx (sx_nth req 1) in
  let cands := map cand_of_sx (l_of_sx (sx_nth req 2)) in
  SxL (map sx_of_otok (tokenize cands len)).

Definition dispatch (req : sx) : sx :=
  match z_of_sx (sx_nth req 0) with
  | 16 => op_tokenize req
  | _ => SxL [SxZ (-1)]
  end.
