(* Hand-written glue (trusted): parse one S-expression of integers per line
   into Model.sx, call the extracted Model.dispatch, print the reply. *)

let rec pos_of_int n =
  if n = 1 then Model.XH
  else if n land 1 = 0 then Model.XO (pos_of_int (n lsr 1))
  else Model.XI (pos_of_int (n lsr 1))
let z_of_int n = if n = 0 then Model.Z0 else if n > 0 then Model.Zpos (pos_of_int n) else Model.Zneg (pos_of_int (-n))
let rec int_of_pos = function Model.XH -> 1 | Model.XO p -> 2 * int_of_pos p | Model.XI p -> 2 * int_of_pos p + 1
let int_of_z = function Model.Z0 -> 0 | Model.Zpos p -> int_of_pos p | Model.Zneg p -> - (int_of_pos p)

let parse (s : string) : Model.sx =
  let n = String.length s in
  let i = ref 0 in
  let rec skip () = if !i < n && (s.[!i] = ' ' || s.[!i] = '\n' || s.[!i] = '\r') then (incr i; skip ()) in
  let rec value () =
    skip ();
    if !i >= n then failwith "eof"
    else if s.[!i] = '(' then begin
      incr i;
      let acc = ref [] in
      let rec loop () =
        skip ();
        if !i >= n then failwith "unclosed"
        else if s.[!i] = ')' then incr i
        else (acc := value () :: !acc; loop ()) in
      loop (); Model.SxL (List.rev !acc)
    end else begin
      let j = !i in
      if s.[!i] = '-' then incr i;
      while !i < n && s.[!i] >= '0' && s.[!i] <= '9' do incr i done;
      if !i = j then failwith ("bad char at " ^ string_of_int j);
      Model.SxZ (z_of_int (int_of_string (String.sub s j (!i - j))))
    end in
  value ()

let rec print buf = function
  | Model.SxZ z -> Buffer.add_string buf (string_of_int (int_of_z z))
  | Model.SxL l ->
    Buffer.add_char buf '(';
    List.iteri (fun k x -> if k > 0 then Buffer.add_char buf ' '; print buf x) l;
    Buffer.add_char buf ')'

let () =
  try
    while true do
      let line = input_line stdin in
      let buf = Buffer.create 256 in
      (try print buf (Model.dispatch (parse line))
       with Failure m -> Buffer.add_string buf ("(-2) ; " ^ m)
          | Stack_overflow -> Buffer.add_string buf "(-3)");
      print_string (Buffer.contents buf); print_char '\n'; flush stdout
    done
  with End_of_file -> ()
