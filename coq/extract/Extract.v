From Mistletoe Require Import Base.Sx Extract.Driver.
Require Import ExtrOcamlBasic.
Extraction Language OCaml.
Set Extraction Output Directory ".".
Extraction "model.ml" dispatch.
