#!/usr/bin/env python3
"""developer helper: apply a seeded change to /repo, run the named checks (quick tier), undo the change.
usage: tools_mutant.py <dir containing patch.diff> <property id> [more ids...]
Writes <dir>/result.json: tests pass?, per property: exit code, VIOLATION lines, replay excerpt."""
import json
import os
import subprocess
import sys


def sh(cmd, cwd=None, timeout=3600):
    p = subprocess.run(cmd, shell=True, cwd=cwd, stdout=subprocess.PIPE, stderr=subprocess.STDOUT, text=True, timeout=timeout)
    return p.returncode, p.stdout


def main():
    d = os.path.abspath(sys.argv[1])
    props = sys.argv[2:]
    patch = os.path.join(d, 'patch.diff')
    rc, out = sh('git status --porcelain', cwd='/repo')
    if out.strip():
        print('refusing: /repo is not clean:\n' + out)
        return 2
    res = {'patch': patch, 'checks': {}}
    rc, out = sh('git apply %s' % patch, cwd='/repo')
    if rc != 0:
        print('patch does not apply: ' + out)
        return 2
    try:
        rc, out = sh('/venv/bin/python -m pytest -q -p no:cacheprovider 2>&1 | tail -2', cwd='/repo')
        res['tests'] = out.strip().splitlines()[-1] if out.strip() else ''
        for p in props:
            rc, out = sh('./check %s --tier quick' % p, cwd='/verif')
            lines = [l for l in out.splitlines() if l.startswith(('VIOLATION', 'OK ', 'ERROR'))]
            entry = {'exit': rc, 'lines': lines}
            for l in lines:
                if l.startswith('VIOLATION') and 'replay=' in l:
                    path = l.split('replay=')[1].split()[0]
                    try:
                        r = json.load(open(path))
                        entry['kind'] = r.get('kind')
                        entry['what'] = r.get('what')
                        entry['input'] = json.dumps(r.get('input'))[:400]
                        entry['proof_failures'] = [x[:300] for x in r.get('proof_failures', [])][:3]
                        entry['disagreements'] = len(r.get('correspondence_disagreements', []))
                    except Exception as e:
                        entry['replay_error'] = str(e)
            res['checks'][p] = entry
            print(p, rc, lines[-1] if lines else out[-300:])
    finally:
        sh('git checkout -- .', cwd='/repo')
        rc, out = sh('git status --porcelain', cwd='/repo')
        if out.strip():
            print('WARNING: /repo not clean after undo:\n' + out)
    json.dump(res, open(os.path.join(d, 'result.json'), 'w'), indent=1)
    return 0


if __name__ == '__main__':
    sys.exit(main())
