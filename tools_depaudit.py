#!/usr/bin/env python3
"""developer helper: every module a .v file names after `From Mistletoe Require` must appear in coqdep's output for that file
(coqdep's lexer once lost the rest of Props/C03.v after a string literal holding a comment opener; `make <one target>` then
compiled it before its dependencies)"""
import glob, os, re, subprocess, sys
os.chdir(os.path.join(os.path.dirname(os.path.abspath(__file__)), 'coq'))
bad = 0
for f in sorted(glob.glob('theories/**/*.v', recursive=True)):
    src = open(f).read()
    mods = set()
    for blk in re.findall(r'From Mistletoe Require (?:Import|Export)(.*?)\.\s*\n', src, re.S):
        mods.update(re.findall(r'\b([A-Z][A-Za-z0-9_]*(?:\.[A-Z][A-Za-z0-9_]*)+)\b', blk))
    first = subprocess.run(['coqdep', '-Q', 'theories', 'Mistletoe', f], capture_output=True, text=True).stdout.split('\n')[0]
    for t in sorted(mods):
        if 'theories/' + t.replace('.', '/') + '.vo' not in first:
            print('MISSING', f, t)
            bad += 1
print('modules coqdep does not see:', bad)
sys.exit(1 if bad else 0)
