"""Regenerates MANIFEST.json from the table below (run: /venv/bin/python harness/manifest.py)."""
import json
import os

ROOT = os.path.dirname(os.path.dirname(os.path.abspath(__file__)))

CLAIMED = {
    'C16': dict(
        text='Theorems over ALL candidate-match lists (unbounded) about a Gallina model of span_tokenizer.py: tiling, '
             'order/disjointness, children inside parse groups, text recovery, no invented/duplicated token, the exact '
             'two-candidate rule; the model is tied to the code by running the extracted model and the real tokenizer on the '
             'same candidate sets (exhaustive small pairs, random sets, real renderer with regex-defined custom tokens).',
        note='relation is proved equal to the function translated from span_tokenizer.py on every run (C16_relation_is_the_source). Trusted: Coq kernel, extraction (ExtrOcamlBasic), the hand-written model of span_tokenizer.py (correspondence-checked), '
             'harness. Well-formed candidates assumed (start<=parse_start<=parse_end<=end<=len). Known finding kf_trailing_region.',
        technique='Coq proof (induction over the ParseToken forest invariant) + extracted-model correspondence',
        design='5/C16'),
    'C08': dict(
        text='Theorems over ALL token trees x all option sets about a Gallina model of HtmlRenderer: tags balanced, every tag/attribute in the '
             'fixed vocabulary, attribute values free of quotes and angle brackets, text escaped, raw items only from HtmlBlock/HtmlSpan; the '
             'escape chain, URL safe set and the escaping at each template hole are regenerated from html_renderer.py on every run and enter the '
             'theorems as reflective side conditions; model tied to the code by running the extracted model and the real renderer on parsed and '
             'on loaded hostile trees and on every code point.',
        note='Trusted: Coq kernel, extraction, translator gen_escapes.py (Python ast), hand-written structural model of the templates '
             '(correspondence-checked), tree dumper/loader. The hypothesis wf_attrs (heading level 1..6) is proved for every tree the parser model produces (regex group-length analysis), so the theorem holds for every input. '
             'String-level lexing of the serialised items is checked by the extracted lexer on real output, not yet proved.',
        technique='Coq proof (induction over token trees; reflective side conditions on regenerated escape data) + extracted-model correspondence',
        design='5/C08'),
    'C04': dict(
        text='QUOTE: theorem over ALL lists of tab-free lines, all line lengths, all fuels, both markers and every token configuration that tries Quote before '
             'Paragraph: the block tokenizer of the parser model returns exactly one quote holding the tokenization of the lines (setext headings off, as '
             'Quote.read does), and the whole-document form adds the link definitions and the line numbers; proved through a first-character analysis of '
             'the regex engine (sound for every pattern) evaluated by the kernel on the patterns regenerated from /repo. The statement at full strength is '
             'refuted in the model (witness Foo / ---): known finding. LIST: theorem over ALL markers (+ - * and 1-9 digits with . or )), padding 1-4, ALL structured tab-free texts, fuels and '
             'configurations (minus thematic-break coincidences): exactly one single-item list holding the tokenization of the text; the three list patterns enter by '
             'their exact regenerated shape and are evaluated with verified lemmas on greedy repetition in the matcher; a bounded kernel sweep through the inline phase '
             'is kept beside it. Model tied to the code by X-doc on the texts and on every embedding.',
        note='The start predicates of the block model are proved equal to the start methods translated from block_token.py on every run (C04_block_starts_are_the_source). Both laws are unbounded at the block-tokenizer level (the inline phase is applied to the same buffers on both sides). Trusted: Coq kernel incl. vm_compute, extraction, translators gen_regex/gen_config/gen_tables, '
             'the hand-written parser model (correspondence-checked). Texts with tabs, with a blank last line, or (list law) with lines of spaces only are outside the quantifier. '
             'One genuine defect repaired (fix: 3e6741d).',
        technique='Coq proof (induction over lines; verified regex first-character analysis with reflective side conditions on regenerated patterns; bounded kernel sweep) '
                  '+ extracted-model correspondence + law oracle on the implementation',
        design='5/C04'),
    'C05': dict(
        text='Theorems over ALL lists of lines A, all B, all fuels and every token configuration without a BlankLine token, about the dispatch loop and readers of '
             'the parser model: (1) THE PROPERTY\'S OWN HYPOTHESES AND NOTHING ELSE (C05_last_block_closed_independent): the lines are Document\'s (each ends with its only newline), A\'s LAST block is closed, no top-level block of A is a link-definition block (any start state) - then the blocks of A + blank line + B are the blocks of A followed by those of B read from the state A leaves; that every code / fence / HTML block and every LIST of A was ended by a line of A is DERIVED from the closed last block (a line of white space starts no block: a `needs a non-space character` analysis of the regex engine; a list whose reading ran off the end of A is followed by blank lines only: ListItem.read gives back at most one line, a blank one, the continuation pattern evaluated exactly on any mix of leading spaces and tabs); '
             '(2) tokenizing the same lines from another start line shifts every recorded line number, nested ones included, by exactly the difference, (3) a blank '
             'line is skipped by the loop. The law at the property\'s full strength (only the LAST block of A closed), whole pipeline with inline phase and line '
             'numbers, is kernel-checked on 781 x 13 pairs (bound in the theorem) and decided beyond that on the implementation by the oracle; model tied to the '
             'code by X-doc on the combined texts.',
        note='Heading.start and CodeFence.start, with the class attributes they leave behind for read(), and the other start predicates of the model are proved equal to the methods translated from block_token.py on every run (C05_block_starts_are_the_source). The theorem is about the block phase of the model (structure and line numbers of every block); with no link definitions the inline phase is a function of each block\'s own lines. Trusted: Coq kernel incl. vm_compute, extraction, translators, '
             'the hand-written parser model (correspondence-checked). Scratch-state leakage between readers (the property\'s concern) cannot exist in the pure model: that '
             'the implementation behaves like the model on adjacent blocks is exactly what X-doc and the law oracle check.',
        technique='Coq proof (induction over the dispatch loop; look-ahead lemmas for every reader) + bounded kernel sweep + extracted-model correspondence + law oracle',
        design='5/C05'),
    'C14': dict(
        text='(000) Theorem over ALL paragraphs of ANY number of lines in which DELIMITER CHARACTERS STAND WHERE THEY MEAN NOTHING, whole pipeline model (C14_inert_delimiters_pass_through): the joined text has no backslash or backtick, no & or no ; (so no character reference can be completed: `AT&T`, `a && b` are inert), no ] directly followed by ( (the document defines no link references), no run of * or _ that could close emphasis by the flanking rules (isolated runs, intraword underscores, runs that can only open), and for every regex-defined span token of the configuration a character every match must consume is absent (so a < without > is inert): however many runs, [ ![ and ] the text holds, the delimiter scanner ends without a match (an invariant of its loop: no delimiter on the stack can close, find_link_image only removes brackets), and the paragraph renders as <p> + the lines, escaped, joined by newlines + </p>; every hypothesis is also a computable check, evaluated in the proof assistant on a sample of the paragraphs that are run on the implementation. (00) Theorem over ALL paragraphs of ANY number of lines, whole pipeline model: a plain first line followed by continuation lines (plain lines whose first character can be neither a setext underline nor a list-item marker) parses to one paragraph - raw text and soft line breaks - and renders as <p> + the lines, escaped, joined by newlines + </p>: the paragraph reader goes on over every line, the LineBreak pattern finds exactly the newlines (evaluated in the regex engine), the candidates tile the text. (0) Theorem over ALL lines, whole pipeline model (block phase, every span-token finder, delimiter scanner, candidate tiling, HTML renderer) and every modelled '
             'token configuration: a line free of the 14 trigger characters that begins with a non-marker character and does not end in white space renders as '
             '<p> + escaped text + </p>; it rests on two analyses of the regex engine proved sound for every pattern (needs: each inline pattern consumes its trigger '
             'character; nomatch: a block pattern cannot start with a given character) evaluated by the kernel on the regenerated patterns. '
             '(a) Theorem over ALL lines, for the block-start patterns regenerated from /repo: a line whose first character is not a marker character cannot start '
             'any block kind other than a paragraph or a table, and the ASCII marker characters are exactly white space # * + - 0-9 < > [ _ ` ~ (so ". " and ") " '
             'never open a list) - by the verified first-character analysis of the regex engine. (b) Kernel-checked: the whole pipeline renders every paragraph of '
             'one line x 1-3 tokens or two lines x 1-2 tokens over a 16-token vocabulary that passes an inertness predicate written from the CommonMark rules '
             '(independent of the parser model) as <p> + escaped text + </p>. (c) Oracle on the implementation: 143-token vocabulary, 1-4 lines, exhaustive 1- and '
             '2-token lines, same predicate; model tied by X-doc and by comparing the model\'s HTML.',
        note='The block start predicates and is_closer / follows of the model are proved equal to the functions translated from the source on every run (C14_block_starts_are_the_source, C14_closer_is_the_source). Unbounded for trigger-free paragraphs and for paragraphs with inert * _ [ ] ! < > ( ) of any number of lines. PARTIAL for the other inert positions the property names (& in a text that also holds a ; but completes no character reference, single ~, a line that begins with a marker character used as a word such as -x or #tag or 1.a, | outside a table): bounded in the kernel, sampled beyond. Trusted: Coq kernel incl. vm_compute, '
             'extraction, translators, the hand-written pipeline model (correspondence-checked), the inertness predicate (python and Coq twins; conservative - '
             'texts with ~~, backticks, backslashes, tabs are skipped).',
        technique='Coq proof (verified regex first-character analysis with reflective side conditions; bounded kernel sweep guarded by an independent predicate) '
                  '+ extracted-model correspondence + oracle on the implementation',
        design='5/C14'),
    'C03': dict(
        text='UNBOUNDED on a fragment: for every document of one or more blank-line-separated trees - any size, any depth - of paragraphs of one or more lines whose delimiter characters, if any, are inert (* _ [ ] ! > & ( ) allowed wherever none can open or close anything: inert_para_b - no backslash, backtick, ~, <, $, {, |, no "](", no run of * or _ that can close, & and ; not both), one-line paragraphs that mix any number of emphasised phrases and inline links in any order (leaf FSent), one-line paragraphs with one emphasised phrase (text, a run of * or _ once or twice, words, the run again, text) or with one inline link (text, [words](destination), text; the destination a run of characters without white space, parentheses or a character a span finder needs); as inline theorems also ANY NUMBER of links in one sentence (C03_link_phrases) and sentences that MIX any number of emphasised phrases and links in any order (C03_mixed_phrases: the scanner with the phrases\' delimiters kept below the bracket, the pairing, Python\'s stable sort of the candidates into source order, the tokens), ATX headings, thematic breaks, fenced code blocks (` or ~, any length, any content), block quotes and lists of one or more items, each followed by a blank line or directly by the next (same bullet, or same delimiter with any numbers; an item followed by a blank line or holding two blocks is loose, the list is tight only if no item is) (all markers, padding 1-4; '
             'siblings separated by a blank line, two lists never adjacent siblings) the block tokenizer of the model returns on the spelled text exactly the pre-token tree '
             'written from the tree (kinds, nesting, start lines, list attributes, loose flags), and Document(lines) - whose depth fuel is proved sufficient for the fragment - holds exactly the token tree written from the tree for every renderer\'s token sets, and the HTML renderer model writes for it exactly the HTML written directly from the tree (CommonMark layout, tight items without <p>, escaped text), also for the text given as one string; a second unbounded fragment - tight nested bullet lists written one item per line, any size and depth - is proved the same way down to the HTML (paragraph interrupted by its sub-list, items ended by the next sibling marker); the proof composes the quote law, the list law, blank-line independence '
             'and the plain-line theorem. Indented code blocks of any number of lines and any content, and setext headings (any number of plain lines, an underline of = or - of any length; at top level) and thematic breaks (three or more - _ * of any length) are proved separately down to the HTML (C03_indented_code_block, C03_setext_heading, C03_thematic_break). Beyond the fragment: kernel-checked on a finite family stated in the theorem (314 one-block trees with containers nested two deep '
             'x 48 spellings, 4356 two-block trees x 6 spellings: fences, headings, breaks, tight lists) that the pipeline model renders the spelled text to exactly '
             'the HTML written from the tree; the full grammar (inlines, ordered/loose lists, tables, HTML blocks, definitions, lazy lines, indents, depth 4) is decided '
             'on the implementation by a tree-first generator with an independent HTML writer and CommonMark\'s normalisation; X-doc ties the model to the implementation.',
        note='The character scanners of the inline-link parser (shift_whitespace, match_link_dest, match_link_title) are translated loop by loop from core_tokens.py on every run and the model\'s scanners proved equal to them (C03_link_scanners_are_the_source). PARTIAL beyond the fragment (bounded in the kernel, sampled on the implementation). Trusted: Coq kernel incl. vm_compute, extraction, translators, pipeline model (correspondence-checked), '
             'harness/treegen.py and htmlnorm.py (the oracle). Three genuine defects repaired (fix: 3e6741d, 952f88d, 8741346); two recorded findings.',
        technique='Coq proof (induction on nesting depth composing the C04/C05/C14 laws) + bounded kernel sweep against a Coq specification of spelling + extracted-model correspondence + generator oracle',
        design='5/C03'),
    'C17': dict(
        text='Theorems over ALL token trees about a Gallina model of LaTeXRenderer: template braces and \\begin/\\end pairs properly nested, every text '
             'item a sequence of ordinary characters and escape sequences (declarative predicate Esc), every \\href/\\url argument safe, \\verb delimiter '
             'absent from its content; escape table, URL chain/safe set, hole fillers and delimiters regenerated from latex_renderer.py each run and checked '
             'by reflective side conditions; extracted model vs real renderer on parsed and loaded trees and every code point.',
        note='Trusted: Coq kernel, extraction, translator gen_latex.py, hand-written structural model (correspondence-checked), check_latex string oracle. '
             'Verbatim/math regions set aside. Two known findings (image src, code language written raw) are excluded by the hypothesis kf_free and have a refutation lemma.',
        technique='Coq proof (induction over token trees; reflective side conditions on regenerated escape data) + extracted-model correspondence',
        design='5/C17'),
    'C18': dict(
        text='Theorems: (a) over the method-resolution tables regenerated from the live classes, every non-extension method of each contrib renderer '
             'resolves to the class that supplies it for HtmlRenderer (kernel-checked finite sweep), constructors forward **kwargs; (b) for ALL token '
             'trees and option sets, rendering by method resolution over the HTML model equals the HTML model wherever the renderer\'s own overrides '
             'are not reached (Toc: every tree; MathJax: + script line); (c) a token type that finds nothing does not change inline tokenization, and the extension tokens do find nothing on a text without their trigger characters (every match of Math.pattern consumes a $, every match of GithubWiki.pattern a [, a | and a ]: the verified `needs` analysis of the regex engine on the regenerated patterns). '
             'Extracted model vs the four real renderers (real Pygments highlight supplied) on all streams; oracle = contrib output vs HtmlRenderer output.',
        note='Trusted: Coq kernel, extraction, gen_dispatch.py (inspect/ast), hand-written model of the four overrides, HTML model of C08. '
             'That a pattern cannot match without its trigger character is checked on the implementation only.',
        technique='Coq proof (induction over token trees + reflective sweep of regenerated MRO tables) + extracted-model correspondence',
        design='5/C18'),
    'C19': dict(
        text='Theorems over ALL token trees and all configurations (depth, omit_title, arbitrary filter predicates): the headings TocRenderer collects '
             'are exactly the qualifying headings in document order (rendering order = document order proved), each with its level and, for plain-word '
             'titles, exactly its text (strip_tags model of the tag-stripping regex). NESTING: theorem over ALL heading lists that form an outline (first heading '
             'at the shallowest level, never deepening by more than one) with plain titles - any number of headings, any depth: the lines TocRenderer.toc writes '
             'tokenize (model of block_token.tokenize, with a depth fuel proved sufficient) to exactly one list nested as the forest the outline denotes '
             '(flatten (forest_of hs) = hs); proved from a new unbounded law for tight nested bullet lists (paragraph interrupted by the sub-list, items ended by '
             'the next sibling marker, indented marker lines evaluated through the regex engine). Model tied by X-toc on generated outlines and spec-derived texts, '
             'now including the token tree of r.toc itself.',
        note='Trusted: Coq kernel, extraction, hand-written model of render_heading/parse_rendered_heading (strip_tags differential-tested against re.sub), '
             'HTML model of C08, parser model (correspondence-checked), outline generator. Titles outside the computable hypothesis titles_okb (inline markup, leading digits or marker characters) are decided by the oracle only. Known findings: kf_toc_empty, kf_setext_in_quote; one fix: commit (indent base).',
        technique='Coq proof (induction over token trees; induction on nesting depth and sibling lists over the block tokenizer model for the nesting clause) + extracted-model correspondence + generator oracle',
        design='5/C19'),
    'C15': dict(
        text='Theorems for ALL texts: with only \\n as terminator the line list Document.__init__ prepares is the same for a string, a file object and '
             'a list of terminator-free lines, and a final newline does not change it (non-empty text); the side condition is shown necessary '
             '(form feed witness) and the one visible case (empty text) is stated. Everything downstream is a function of that list. Model tied by '
             'capturing the list the real constructor hands to the tokenizer; oracle compares outputs over forms x 8 renderers and the CLI in subprocesses.',
        note='Trusted: Coq kernel, extraction, hand-written model of splitlines/split/newline completion (correspondence-checked incl. \\r, \\f, \\x85 texts); '
             'assumed: a text file iterates as its \\n-terminated pieces. CLI process I/O by subprocess runs only.',
        technique='Coq proof (induction over strings) + extracted-model correspondence + CLI subprocess runs',
        design='5/C15'),
    'C10': dict(
        text='CLAUSES 1, 3 AND 4 PROVED for EVERY limit on trees of block quotes and lists of any depth (any markers, several items, tight or loose) whose paragraphs are lines of plain words, with fenced code, ATX headings and thematic breaks between them (C10_tree_reflow; whole pipeline model: parse, render with the limit, parse again, render to HTML / reflow again): the renderer writes the same tree with the words of every paragraph regrouped under the budget its containers leave; that tree is proved to lie in the C03 fragment again, so the text parses to it; its HTML is the original\'s up to line endings exchanged for spaces; reflowing again gives the same text; every paragraph line of the output stands behind a container prefix of known width and fits the limit with it or is that prefix and one single word (C10_tree_long_lines); the same with normalize_whitespace=True, where every list marker is followed by one space (C10_tree_reflow_normalized). (First proved for top-level paragraphs of plain words: C10_plain_words_reflow.) Theorems for ALL fragment lists and ALL limits about a Gallina model of the Markdown renderer\'s wrapping core: every produced line fits the '
             'limit or is one single unbreakable word; the lines are groups of exactly the words (none dropped, added or reordered); the result depends on '
             'the fragments only through their words; code/HTML blocks, tables, ATX headings are rendered independently of the limit (all trees); quotes and '
             'list items shrink the budget by exactly the width of the prefix they add (all trees). Model tied by the real classmethods on synthetic '
             'Fragment lists (X-wrap), prefix_lines, and whole documents (X-md). PARTIAL: for documents outside that class (inline markup, setext headings, tables, HTML) clause 1 (same meaning after reflow) and idempotence through a '
             're-parse are decided by the oracle on generated documents only.',
        note='Trusted: Coq kernel, extraction, hand-written model of markdown_renderer.py (correspondence-checked), regenerated whitespace table, document '
             'generator and HTML whitespace normaliser. Documents whose round trip already changes without a limit are C09\'s; marker-like words are kf_wrap_block_marker_word. One fix: commit (budget 0).',
        technique='Coq proof (induction over word/fragment lists) + extracted-model correspondence; meaning clause by generator-oracle',
        design='5/C10'),
    'C09': dict(
        text='PARTIAL. With normalize_whitespace=True, on trees of quotes and lists of any depth over paragraphs of plain words (with fences, ATX headings, thematic breaks): the renderer writes the tree with one space after every list marker; that text lies in the fragment again, has exactly the original HTML, and is a fixed point (C09_normalize_whitespace_round_trip). UNBOUNDED on a fragment: for every document of one or more blank-line-separated trees - any size and depth - of paragraphs of one or more lines whose delimiter characters, if any, are inert (* _ [ ] ! > & ( ) allowed wherever none can open or close anything: inert_para_b - no backslash, backtick, ~, <, $, {, |, no "](", no run of * or _ that can close, & and ; not both), one-line paragraphs that mix any number of emphasised phrases and inline links in any order (leaf FSent), one-line paragraphs with one emphasised phrase (text, a run of * or _ once or twice, words, the run again, text) or with one inline link (text, [words](destination), text; the destination a run of characters without white space, parentheses or a character a span finder needs), ATX headings, thematic breaks, fenced code blocks, block quotes and lists of one or more items, each followed by a blank line or directly by the next (same bullet, or same delimiter with any numbers; an item followed by a blank line or holding two blocks is loose, the list is tight only if no item is), '
             'parsing the spelled text with the Markdown renderer\'s token sets (model of Document(lines)) and rendering it without a line limit gives back exactly the text '
             '(C09_fragment_round_trip; hence same meaning, fixed point, exact normal form) with no side condition - the two the proof first forced (a fence is not empty, code lines do not begin with white space) were renderer defects and are repaired (fix: 50fc060, 1070095); '
             'the same identity is proved for tight nested bullet lists written one item per line (any size, depth, bullet, padding, indentation). Beyond these fragments, proved for ALL token trees about the Gallina model of the Markdown renderer: without a line limit the fragment texts are written '
             'verbatim with exactly one final newline; HTML blocks are reproduced verbatim; blank lines and link reference definitions are written in '
             'place; container prefixes go exactly in front of the children\'s lines (count preserved). The model is tied to the code by X-md on the 652 '
             'spec examples and generated documents x normalize_whitespace. Beyond the fragment the three clauses of the property (same meaning, idempotent, exact on '
             'normal form) are decided by the oracle on the implementation; inputs in the five recorded finding classes are '
             'identified by classifiers and reported as KNOWN-FINDING.',
        note='Trusted: Coq kernel, extraction, hand-written model of markdown_renderer.py, document generator, finding classifiers. The parse half of the round trip is proved on the fragment only.',
        technique='Coq proof: round trip identity on a fragment (induction on nesting depth over the parser and renderer models) and the renderer half for all trees + extracted-model correspondence; round-trip clauses by generator-oracle',
        design='5/C09'),
    'C02': dict(
        text='The quantifier domain is finite (652 examples) and decided exactly: the Coq kernel evaluates the whole-pipeline Gallina model (regex engine on '
             'the regenerated patterns, block phase, inline phase, HTML renderer) on every example and checks exact equality with the expected HTML '
             '(vm_compute, lifted with forallb_forall); on every run the implementation is also run on every example and compared with the model and with '
             'the expected HTML, so impl(ex) = model(ex) = expected(ex) for each ex.',
        note='Trusted: Coq kernel incl. vm_compute, extraction, the hand-written control flow of the parser model (tied by exhaustive correspondence on the '
             'corpus and by X-doc on tens of thousands of other documents), translators for patterns/tables/configuration/escapes, vendored corpus.',
        technique='Coq proof by kernel evaluation of the pipeline model on the complete corpus + exhaustive correspondence',
        design='5/C02'),
    'C07': dict(
        text='Theorems for ALL definition lists, keys and documents about the parser model: the footnote map returns, for a key, the value of the FIRST '
             'definition in document order whose normalised label equals it; the map every inline parse uses is that of the whole document (two phases), with '
             'containers transparent to document order; definitions build no token. DOWN TO THE RESOLVED LINK (C07_reference_in_sentence, C07_reference_resolves): a shortcut reference [w] '
             'inside a sentence of trigger-free text (any lengths; w not blank; no "(" right after) tokenizes - scanner, bracket stack, label lookup, every span finder, candidate '
             'tokenizer - to the text before, ONE Link holding w, the text after, its target and title being those of the FIRST definition in document order, wherever it stands, '
             'whose label has the same normalize_label (case-folded, white space collapsed): the three clauses on the link that comes out, for every modelled configuration; the same for the full form '
             '[text][label] and the collapsed form [label][] (the label scanner followed over a label of any length); and a reference whose label has NO definition stays literal text, brackets included '
             '(C07_reference_without_definition). '
             'Model tied by X-doc (tree + Document.footnotes with order). Oracle: '
             'generated documents with definitions at every kind of block boundary and nesting, near-duplicate labels, vs the resolved href/title.',
        note='Trusted: Coq kernel, extraction, parser model (correspondence-checked), translators, placement generator. The scanners of a definition\'s label, destination and title are translated from block_token.py on every run and proved equal to the model\'s (C07_definition_scanners_are_the_source); how match_reference and Footnote.read combine them is the '
             'hand-written model (tied by correspondence and C02), not specified independently.',
        technique='Coq proof (induction over definition lists) + extracted-model correspondence + generator oracle',
        design='5/C07'),
    'C13': dict(
        text='PARTIAL beyond the fragments. Theorems for ALL buffers, token sets and nested tokenizers about the model of the dispatch loop and the container readers: every '
             'entry of a buffer is exactly what the readers produce when started on the suffix that begins at the entry\'s recorded line; line numbers strictly '
             'increase along a buffer; a quote hands its children one buffer line per consumed line numbered from its own line; a list item\'s buffer is '
             'prefix-aligned with the lines it consumed. The model computes the line number of every block token (rows and cells included) and is compared '
             'with the implementation on every token (X-doc). THE COMPOSITION OVER NESTING IS PROVED on the two unbounded fragments: for every tree (any size and depth) of paragraphs of several lines, ATX headings, thematic breaks, fenced code blocks, block quotes and lists of one or more items, each followed by a blank line or directly by the next (same bullet, or same delimiter with any numbers; an item followed by a blank line or holding two blocks is loose, the list is tight only if no item is), and for every tight nested bullet list, every block token at every depth carries exactly the line on which the writer put its first line (C13_fragment_line_numbers with pre_of / spell, C13_fragment_sibling_offset, C13_outline_line_numbers, C13_outline_one_line_per_node). Beyond the fragments (tables with rows and cells, HTML blocks, loose and ordered lists with several items, containers beginning with a blank line, lazy lines, definitions) it is decided by a generator that records the line of every block it writes.',
        note='Trusted: Coq kernel, extraction, parser model (correspondence-checked on all line numbers), line-recording generator. Known finding kf_setext_in_quote; one fix: commit (blank first line of a list item).',
        technique='Coq proof (induction over the dispatch loop and reader loops) + extracted-model correspondence + line-recording generator oracle',
        design='5/C13'),
    'C06': dict(
        text='SOUNDNESS FOR EVERY TEXT without backslash, backtick and completed links (C06_emphasis_sound): each emphasis the inline scanner of the model finds pairs a maximal run of * or _ that can open with one that can close, of the same character, not excluded by the rule of three on the original run lengths, and it starts inside the opening run and ends inside the closing run - by invariants of the two loops (the scanner\'s stack holds the delimiters of the maximal runs; every delimiter process_emphasis works on is what is left of one of them; C06_process_emphasis_sound holds for EVERY delimiter stack and stack bottom); with is_opener / is_closer proved equal to the specification\'s flanking rules and to the source\'s functions this is the soundness half of the property for all such texts - that the matches are exactly the specification\'s (priority among candidates) is what remains bounded. Unbounded, end to end through the inline phase: the texts *w*, _w_, **w**, __w__ whose inside w (any length) is free of trigger characters and begins and ends with a character that is neither white space nor punctuation tokenize to exactly one Emphasis / Strong holding w, rendered <em>w</em> / <strong>w</strong> (scanner, flanking, process_emphasis, all span finders, candidate tokenizer: C06_simple_emphasis); the same pair of runs inside a sentence, pre + run + w + run + post with trigger-free text of any length before and after it that meets the runs with white space, punctuation or nothing, tokenizes to text, one Emphasis / Strong, text (C06_emphasis_in_sentence). EXACTNESS FOR ANY NUMBER OF PHRASES (C06_sequential_pairs, C06_emphasis_phrases): on a delimiter stack that is a sequence of n pairs opener, closer (same character, same length one or two, the opener only able to open, the closer only able to close) process_emphasis matches every closer with the opener before it, in order, and leaves nothing - induction over the code\'s loop, the openers_bottom table stays empty; and end to end the text t0 R1 w1 R1 t1 ... Rn wn Rn tn (trigger-free words and separators, each separator non-empty and beginning and ending with white space or punctuation) tokenizes to t0 and, for every phrase, one Emphasis / Strong holding wi followed by ti, for every n: scanner over all 2n runs with their flanking, the pairing, all span finders, and the candidate tokenizer on n candidates that parse their content (Proofs/ChainTokens.v generalises the non-overlap theorem of the span tokenizer). The model\'s is_opener / is_closer / is_left_delimiter / is_right_delimiter / closed_by are proved equal to the functions translated from core_tokens.py on every run (C06_flanking_is_the_source). Unbounded theorems: the flanking classification of the model (is_opener / is_closer) equals the specification\'s left/right flanking with the '
             'underscore restrictions for ALL strings and positions (both character tables regenerated; the implementation\'s sets are proved equal to '
             'sets derived from unicodedata by the CommonMark definition), and closed_by is the negated rule of three on original lengths. Bounded theorems, '
             'kernel-evaluated in 33 shards: the complete inline parse of the model equals an independent Gallina transcription of the specification\'s '
             'delimiter algorithm on EVERY string over {a,space,*,_,.} up to length 7 and over {a,*}, {a,_} up to length 12. Beyond those bounds: the '
             'implementation is compared with the extracted specification algorithm exhaustively to length 8 (thorough: 9) / 14 and on random wide-alphabet strings.',
        note='Trusted: Coq kernel incl. vm_compute, extraction, Spec/Delims.v as the yardstick, the inline model (correspondence-checked). '
             'No unbounded equality theorem for arbitrary nesting (would need a simulation proof between two stack machines); unbounded only for one pair of runs around plain text. Three fix: commits.',
        technique='Coq proof (boolean case analysis, unbounded) + kernel evaluation of model vs specification on the finite sets + exhaustive implementation-vs-specification comparison',
        design='5/C06'),
    'C12': dict(
        text='Theorems: (a) for EVERY input and token configuration the tree the parser model produces is well-shaped (heading levels in range, every list start agreeing with its first marker, lists hold items only, tables rows, '
             'rows cells, leaf blocks and inline containers hold inline tokens only, quotes/items/documents hold block tokens only; code and HTML blocks hold '
             'exactly one raw text by construction) - proved through the dispatch loop, the list reader and all constructors; (b) for ALL trees, class filters '
             'and depth limits utils.traverse yields exactly the proper descendants that pass filter and limit, each exactly once, with depth = distance and the '
             'true parent (paths as identities). Parser model tied by X-doc; traverse model tied by running the real generator on real object graphs with '
             'random klass/depth/include_source. Parent links, reachability, attribute ranges and the AST JSON mirror are checked by an independent walker.',
        note='Trusted: Coq kernel, extraction, parser model and traverse model (both correspondence-checked), the walker. Attribute ranges (heading level, list start) '
             'and JSON text validity are oracle-only.',
        technique='Coq proof (induction over fuel/loops/pre-token trees; BFS level characterisation) + extracted-model correspondence + independent object-graph walker',
        design='5/C12'),
    'C11': dict(
        text='PARTIAL. Theorem for ALL histories of (non-nested) sessions whose bodies may render, add custom tokens or end in an exception: afterwards the active '
             'block and span token sets are exactly the defaults (model of the list bookkeeping; constructor effects regenerated from the live classes). That no '
             'scratch state leaks from one parse into the next is an assumption built into the parser model (a pure function of configuration and text), not a '
             'theorem; it is decided on the implementation: systematic histories (a parse raising inside a custom block/span token at every list position and call '
             'count under R1, then every probe under R2, then a bare Document) and random histories, comparing every output, the token lists and the '
             'read-before-written class attributes with a fresh interpreter, and HTML outputs with the model.',
        note='Trusted: Coq kernel, History model, fresh-interpreter references, probe set. Nested contexts are outside the quantifier. Two fix: commits (_code_matches, parse_setext).',
        technique='Coq proof (fold over histories) for the token lists + history oracle against fresh interpreters and the stateless model',
        design='5/C11'),
    'C01': dict(
        text='PARTIAL. Theorems for ALL token configurations, buffers, states and nested tokenizers about the block model: the dispatch loop is never ended by its '
             'fuel (any larger fuel gives the same result) and every block reader except the link-definition scanner consumes at least one line whenever it '
             'accepts one (so the loop advances); the renderer models are total functions of the tree. That the IMPLEMENTATION never raises and finishes within '
             'the time budget is decided by the oracle: 14 renderer configurations (all 11 renderers, options, max_line_length 1/3/10) x str/list/file input over '
             'spec examples, mutations, random strings, generated documents, all short strings over a 12-symbol alphabet and deep nesting, under a 10 s alarm; '
             'and by correspondence of outcomes (the model always returns a tree, so an exception is a disagreement).',
        note='Trusted: Coq kernel, parser/renderer models (totalised: partial Python operations return sentinels), the oracle alarm. No theorem about CPython regex running time, '
             'the recursion limit, Pygments, Jira/XWiki. Two fix: commits (Delimiter slice, empty containers in Jira/XWiki).',
        technique='Coq proof (induction over the dispatch loop and reader loops) + totality oracle over all renderers + outcome correspondence',
        design='5/C01'),
}

NOT_YET = {}

ALL = ['C%02d' % i for i in range(1, 20)]


def main():
    checks = []
    for pid in ALL:
        if pid in CLAIMED:
            c = CLAIMED[pid]
            checks.append({
                'property_id': pid,
                'quick_cmd': './check %s --tier quick' % pid,
                'thorough_cmd': './check %s --tier thorough' % pid,
                'evidence_file': 'evidence/%s.json' % pid,
                'replay_cmd_template': './check %s --replay {path}' % pid,
                'engine': 'coq-model',
                'level_claimed': {'category': 'proof', 'text': c['text'], 'design_ref': 'DESIGN.md section ' + c['design']},
                'level_note': c['note'],
                'technique': c['technique'],
            })
    na = [{'property_id': pid, 'reason': NOT_YET.get(pid, 'check not built yet at this commit (work in progress; see DESIGN.md section 7 for the build order)')}
          for pid in ALL if pid not in CLAIMED]
    man = {
        'version': 1,
        'setup_cmd': './check setup',
        'hooks': {'guard': 'MISTLETOE_VERIF', 'enable': 'no source hooks are needed: checks observe the library from outside (env MISTLETOE_VERIF=1 is set by ./check but nothing in /repo reads it)',
                  'baseline_off_cmd': 'cd /repo && /venv/bin/python -m pytest -ra -q -p no:cacheprovider --timeout=900 --continue-on-collection-errors',
                  'source_commits': [], 'add_only': True},
        'engines': [{'name': 'coq-model', 'path': 'coq/', 'serves_properties': sorted(CLAIMED),
                     'kind_free_text': 'Gallina model of mistletoe + Coq 8.16 proofs; extracted to OCaml for the correspondence run; Gen/*.v regenerated from /repo on every run'}],
        'checks': checks,
        'not_applicable': na,
        'notes': 'Every check: regenerate Gen/*.v from /repo, full .vo build of Props/<id>.v, Print Assumptions, extraction, correspondence model vs implementation, direct search on the implementation. See DESIGN.md.',
    }
    json.dump(man, open(os.path.join(ROOT, 'MANIFEST.json'), 'w'), indent=1)


if __name__ == '__main__':
    main()
