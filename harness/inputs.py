"""Seeded input streams shared by the checks."""
import json
import os

from harness import core

ALPHA = list('ab c*_`[]()<>!#-+=~|\\&;:"\'/.0123456789\n\n\n\t>') + ['é', ' ', '—', '中', '　', '$', '{', '}', '%', '^', '@']
SNIPS = ['* ', '- ', '1. ', '> ', '# ', '## ', '```', '~~~', '    ', '---', '***', '===', '[foo]', '[foo]: /url "t"', '![a](b)',
         '[a](b "c")', '<http://x.y>', '<a@b.c>', '**', '__', '~~', '`', '``', '&amp;', '&#34;', '&copy;', '\\', '\\\n', '  \n',
         '<div>', '</div>', '<!--', '-->', '<b>', '| a | b |\n| - | :-: |\n', '|', '1) ', '+ ', '\t', '<pre>', '<?', '?>', '<![CDATA[', ']]>']

_corpus = None


def corpus():
    global _corpus
    if _corpus is None:
        _corpus = json.load(open(os.path.join(core.ROOT, 'corpus', 'commonmark-0.30.json')))
    return _corpus


def spec_texts():
    return [e['markdown'] for e in corpus()]


def mutate(rng, s):
    s = list(s)
    for _ in range(rng.randint(1, 4)):
        op = rng.random()
        pos = rng.randint(0, len(s))
        if op < 0.35:
            s[pos:pos] = list(rng.choice(SNIPS) if rng.random() < 0.5 else rng.choice(ALPHA))
        elif op < 0.6 and s:
            del s[min(pos, len(s) - 1)]
        elif op < 0.8 and s:
            s[min(pos, len(s) - 1)] = rng.choice(ALPHA)
        else:
            other = rng.choice(spec_texts())
            a = rng.randint(0, len(other))
            b = rng.randint(a, min(len(other), a + 30))
            s[pos:pos] = list(other[a:b])
    return ''.join(s)


def random_md(rng, maxlen=60):
    n = rng.randint(0, maxlen)
    out = []
    while len(out) < n:
        if rng.random() < 0.3:
            out.extend(rng.choice(SNIPS))
        else:
            out.append(rng.choice(ALPHA))
    return ''.join(out)


def mixed_stream(rng, n, mutate_frac=0.6):
    """spec examples first, then mutations/splices and random strings"""
    texts = list(spec_texts())
    base = spec_texts()
    while len(texts) < n:
        if rng.random() < mutate_frac:
            texts.append(mutate(rng, rng.choice(base)))
        else:
            texts.append(random_md(rng))
    return texts[:max(n, 0)] if n < len(texts) else texts


HOSTILE_BITS = ['"', "'", '<', '>', '&', '&quot;', '&#34;', '&lt;', '\\"', '\\>', '%22', ' onerror="x', '"><b>', 'a b', 'é', 'javascript:x',
                '{', '}', '\\', '$', '#', '%', '^', '_', '~', ')', '(', '\\)', '\\(', ']', '[', '`', '|', 'x', '/', '?q=1&r=2', '*', '\\\\']


def hostile_text(rng, n=4):
    return ''.join(rng.choice(HOSTILE_BITS) for _ in range(rng.randint(0, n)))


def hostile_doc(rng):
    """a document seeded with quote/bracket/ampersand-rich destinations, titles,
    alt texts and info strings"""
    parts = []
    for _ in range(rng.randint(1, 4)):
        k = rng.random()
        h = lambda m=4: hostile_text(rng, m)  # noqa: E731
        if k < 0.2:
            parts.append('[%s](%s "%s")' % (h(), h().replace(' ', ''), h()))
        elif k < 0.35:
            parts.append('![%s](<%s> \'%s\')' % (h(), h(), h()))
        elif k < 0.5:
            parts.append('![%s](%s)' % (h(), h().replace(' ', '')))
        elif k < 0.6:
            parts.append('```%s\n%s\n```' % (h(), h()))
        elif k < 0.7:
            parts.append('<http://%s>' % h().replace(' ', '').replace('<', ''))
        elif k < 0.8:
            parts.append('[r]: <%s> (%s)\n\n[%s][r] ![%s][r]' % (h(), h(), h(), h()))
        elif k < 0.9:
            parts.append('%s `%s` *%s*' % (h(), h(), h()))
        else:
            parts.append('| %s | %s |\n| --- | :-: |\n| %s | x |' % (h(2), h(2), h(2)))
    sep = rng.choice(['\n\n', '\n', ' '])
    pre = rng.choice(['', '> ', '- ', '1. ', '# '])
    return pre + sep.join(parts)
