"""Token trees on the wire: an independent dumper of real token objects (does
not use traverse/get_ast; fails closed on classes/attributes it does not
know), a loader that builds real token objects from a wire tree, and a
generator of random trees with hostile attribute strings."""

TAGS = {'RawText': 0, 'Strong': 1, 'Emphasis': 2, 'Strikethrough': 3, 'InlineCode': 4, 'Image': 5,
        'Link': 6, 'AutoLink': 7, 'EscapeSequence': 8, 'LineBreak': 9, 'HtmlSpan': 10, 'Math': 11,
        'Heading': 12, 'SetextHeading': 13, 'Quote': 14, 'Paragraph': 15, 'BlockCode': 16,
        'CodeFence': 17, 'List': 18, 'ListItem': 19, 'Table': 20, 'TableRow': 21, 'TableCell': 22,
        'ThematicBreak': 23, 'HtmlBlock': 24, 'Document': 25,
        'BlankLine': 26, 'LinkReferenceDefinition': 27, 'LinkReferenceDefinitionBlock': 28}
NAMES = {v: k for k, v in TAGS.items()}

KNOWN_ATTRS = {
    'RawText': {'content'},
    'Strong': {'delimiter'}, 'Emphasis': {'delimiter'}, 'Strikethrough': set(),
    'InlineCode': {'delimiter', 'padding'},
    'Image': {'src', 'title', 'dest_type', 'label', 'title_delimiter'},
    'Link': {'target', 'title', 'dest_type', 'label', 'title_delimiter'},
    'AutoLink': {'target', 'mailto'}, 'EscapeSequence': set(),
    'LineBreak': {'content', 'soft'}, 'HtmlSpan': {'content'}, 'Math': {'content'},
    'Heading': {'level', 'closing_sequence', 'line_number'},
    'SetextHeading': {'level', 'underline', 'line_number'},
    'Quote': {'line_number'}, 'Paragraph': {'line_number'},
    'BlockCode': {'language', 'line_number'},
    'CodeFence': {'indentation', 'delimiter', 'info_string', 'language', 'line_number'},
    'List': {'loose', 'start', 'line_number'},
    'ListItem': {'leader', 'indentation', 'prepend', 'loose', 'line_number'},
    'Table': {'column_align', 'header', 'line_number'},
    'TableRow': {'row_align', 'line_number'}, 'TableCell': {'align', 'line_number'},
    'ThematicBreak': {'line', 'line_number'}, 'HtmlBlock': {'line_number'},
    'Document': {'footnotes', 'line_number'},
    'BlankLine': {'line_number'}, 'LinkReferenceDefinitionBlock': {'line_number'},
    'LinkReferenceDefinition': {'label', 'dest', 'title', 'dest_type', 'title_delimiter'},
}


class DumpError(Exception):
    pass


def opt(x):
    return [] if x is None else [x]


def dump(t):
    name = type(t).__name__
    if name not in TAGS:
        raise DumpError('unknown token class ' + name)
    extra = set(vars(t)) - KNOWN_ATTRS[name] - {'_children', '_parent'}
    if extra:
        raise DumpError('unknown attributes on %s: %s' % (name, sorted(extra)))
    tag = TAGS[name]
    ch = t.children

    def kids():
        if ch is None:
            raise DumpError(name + ' has no children list')
        return [dump(c) for c in ch]

    def only_raw():
        if ch is None or len(ch) != 1 or type(ch[0]).__name__ != 'RawText':
            raise DumpError(name + ' does not hold exactly one RawText')
        return ch[0].content
    if name == 'RawText':
        return [0, t.content]
    if name in ('Strong', 'Emphasis'):
        return [tag, t.delimiter, kids()]
    if name in ('Strikethrough', 'EscapeSequence', 'Quote', 'Paragraph', 'Document', 'LinkReferenceDefinitionBlock'):
        return [tag, kids()]
    if name == 'BlankLine':
        if ch != []:
            raise DumpError('BlankLine with children')
        return [tag]
    if name == 'LinkReferenceDefinition':
        return [tag, t.label, t.dest, t.title, t.dest_type or '', t.title_delimiter or '']
    if name == 'InlineCode':
        return [tag, t.delimiter, t.padding, only_raw()]
    if name in ('Image', 'Link'):
        return [tag, t.src if name == 'Image' else t.target, t.title, t.dest_type or '', opt(t.label),
                t.title_delimiter or '', kids()]
    if name == 'AutoLink':
        return [tag, t.target, bool(t.mailto), kids()]
    if name == 'LineBreak':
        return [tag, t.content, bool(t.soft)]
    if name in ('HtmlSpan', 'Math'):
        return [tag, t.content]
    if name == 'Heading':
        return [tag, t.level, t.closing_sequence, kids()]
    if name == 'SetextHeading':
        return [tag, t.level, t.underline, kids()]
    if name == 'BlockCode':
        if t.language != '':
            raise DumpError('BlockCode.language is not empty')
        return [tag, only_raw()]
    if name == 'CodeFence':
        return [tag, t.indentation, t.delimiter, t.info_string, t.language, only_raw()]
    if name == 'List':
        return [tag, opt(t.start), bool(t.loose), kids()]
    if name == 'ListItem':
        return [tag, t.leader, t.indentation, t.prepend, bool(t.loose), kids()]
    if name == 'Table':
        return [tag, [opt(a) for a in t.column_align], [dump(t.header)] if 'header' in vars(t) else [], kids()]
    if name == 'TableRow':
        return [tag, [opt(a) for a in t.row_align], kids()]
    if name == 'TableCell':
        return [tag, opt(t.align), kids()]
    if name == 'ThematicBreak':
        return [tag, t.line]
    if name == 'HtmlBlock':
        return [tag, only_raw()]
    raise DumpError(name)


def classes():
    from mistletoe import block_token, span_token, latex_token, markdown_renderer
    m = {}
    for name in TAGS:
        for mod in (block_token, span_token, latex_token, markdown_renderer):
            if hasattr(mod, name):
                m[name] = getattr(mod, name)
                break
    return m


_CL = None


def load(w):
    """wire tree -> real token objects (object.__new__ + attributes; children
    through the real `children` setter so that parent links are stamped)"""
    global _CL
    if _CL is None:
        _CL = classes()
    name = NAMES[w[0]]
    cls = _CL[name]
    t = object.__new__(cls)

    def un(o):
        return o[0] if o else None

    def raw(s):
        r = object.__new__(_CL['RawText'])
        r.content = s
        return r
    if name == 'RawText':
        t.content = w[1]
    elif name in ('Strong', 'Emphasis'):
        t.delimiter = w[1]
        t.children = [load(c) for c in w[2]]
    elif name in ('Strikethrough', 'EscapeSequence', 'Quote', 'Paragraph', 'LinkReferenceDefinitionBlock'):
        t.children = [load(c) for c in w[1]]
    elif name == 'BlankLine':
        t.children = []
    elif name == 'LinkReferenceDefinition':
        t.label, t.dest, t.title, t.dest_type, t.title_delimiter = w[1], w[2], w[3], (w[4] or None), (w[5] or None)
    elif name == 'Document':
        t.footnotes = {}
        t.line_number = 1
        t.children = [load(c) for c in w[1]]
    elif name == 'InlineCode':
        t.delimiter, t.padding = w[1], w[2]
        t.children = (raw(w[3]),)
    elif name in ('Image', 'Link'):
        if name == 'Image':
            t.src = w[1]
        else:
            t.target = w[1]
        t.title = w[2]
        t.dest_type = w[3] or None
        t.label = un(w[4])
        t.title_delimiter = w[5] or None
        t.children = [load(c) for c in w[6]]
    elif name == 'AutoLink':
        t.target, t.mailto = w[1], bool(w[2])
        t.children = tuple(load(c) for c in w[3])
    elif name == 'LineBreak':
        t.content, t.soft = w[1], bool(w[2])
    elif name in ('HtmlSpan', 'Math'):
        t.content = w[1]
    elif name == 'Heading':
        t.level, t.closing_sequence = w[1], w[2]
        t.children = [load(c) for c in w[3]]
    elif name == 'SetextHeading':
        t.level, t.underline = w[1], w[2]
        t.children = [load(c) for c in w[3]]
    elif name == 'BlockCode':
        t.language = ''
        t.children = (raw(w[1]),)
    elif name == 'CodeFence':
        t.indentation, t.delimiter, t.info_string, t.language = w[1], w[2], w[3], w[4]
        t.children = (raw(w[5]),)
    elif name == 'List':
        t.start, t.loose = un(w[1]), bool(w[2])
        t.children = [load(c) for c in w[3]]
    elif name == 'ListItem':
        t.leader, t.indentation, t.prepend, t.loose = w[1], w[2], w[3], bool(w[4])
        t.children = [load(c) for c in w[5]]
    elif name == 'Table':
        t.column_align = [un(a) for a in w[1]]
        if w[2]:
            t.header = load(w[2][0])
        t.children = [load(c) for c in w[3]]
    elif name == 'TableRow':
        t.row_align = [un(a) for a in w[1]]
        t.children = [load(c) for c in w[2]]
    elif name == 'TableCell':
        t.align = un(w[1])
        t.children = [load(c) for c in w[2]]
    elif name == 'ThematicBreak':
        t.line = w[1]
    elif name == 'HtmlBlock':
        t.children = (raw(w[1]),)
    if name in KNOWN_ATTRS and 'line_number' in KNOWN_ATTRS[name] and name != 'Document':
        t.line_number = 1
    return t


# ------------------------------------------------------------ random trees
HOSTILE = ['"', "'", '<', '>', '&', '&amp;', '&lt;', '&#34;', '\\', '{', '}', '$', '#', '%', '^', '_', '~',
           ' ', '\n', 'a', 'b', 'Z', '0', '/', ':', '?', '=', '@', '+', ',', ';', '(', ')', '*', '[', ']', '|',
           '`', '!', '.', '-', '\t', 'é', ' ', ' ', '中', '\U0001f600', '\x7f', '\x00',
           'http://', 'javascript:', ' onerror="', '"><script>', '%22', '%', '\\begin{', '\\end{document}', '<!--', '-->']


def rstr(rng, maxn=6):
    return ''.join(rng.choice(HOSTILE) for _ in range(rng.randint(0, maxn)))


def rinlines(rng, depth, html=True, math=False, n=None):
    n = rng.randint(0, 3) if n is None else n
    return [rinline(rng, depth, html, math) for _ in range(n)]


def rinline(rng, depth, html=True, math=False):
    kinds = ['RawText', 'RawText', 'InlineCode', 'LineBreak', 'AutoLink', 'EscapeSequence']
    if html:
        kinds.append('HtmlSpan')
    if math:
        kinds.append('Math')
    if depth > 0:
        kinds += ['Strong', 'Emphasis', 'Strikethrough', 'Image', 'Link']
    k = rng.choice(kinds)
    if k == 'RawText':
        return [0, rstr(rng)]
    if k in ('Strong', 'Emphasis'):
        return [TAGS[k], rng.choice(['*', '_']), rinlines(rng, depth - 1, html, math)]
    if k == 'Strikethrough':
        return [3, rinlines(rng, depth - 1, html, math)]
    if k == 'InlineCode':
        return [4, '`' * rng.randint(1, 3), rng.choice(['', ' ']), rstr(rng)]
    if k in ('Image', 'Link'):
        return [TAGS[k], rstr(rng), rstr(rng, 3), rng.choice(['', 'uri', 'angle_uri', 'full', 'collapsed', 'shortcut']),
                opt(rng.choice([None, rstr(rng, 3)])), rng.choice(['', '"', "'", '(']), rinlines(rng, depth - 1, html, math)]
    if k == 'AutoLink':
        if rng.random() < 0.4:
            tgt = ''.join(rng.choice("ab.!#$%&'*+/=?^_`{|}~-") for _ in range(rng.randint(1, 5))) + '@' + rng.choice(['a', 'b-c.d', 'x.y'])
            return [7, tgt, 'mailto' not in tgt.casefold(), [[0, tgt]]]
        tgt = rng.choice(['http:', 'a+b.c:', 'mailto:']) + rstr(rng).replace(' ', '').replace('<', '').replace('>', '').replace('\n', '').replace('\t', '')
        return [7, tgt, ('@' in tgt and 'mailto' not in tgt.casefold()), [[0, tgt]]]
    if k == 'EscapeSequence':
        return [8, [[0, rng.choice('!"#$%&\'()*+,-./:;<=>?@[\\]^_`{|}~')]]]
    if k == 'LineBreak':
        soft = rng.random() < 0.5
        return [9, rng.choice(['', ' ']) if soft else rng.choice(['  ', '\\', '   ']), soft]
    if k == 'HtmlSpan':
        return [10, rng.choice(['<b>', '</b>', '<!-- c -->', '<a href="x">', '<?php ?>']) if rng.random() < 0.6 else '<' + rstr(rng, 3) + '>']
    if k == 'Math':
        return [11, '$' + rstr(rng, 3).replace('$', '') + 'x$']
    raise AssertionError(k)


def rblocks(rng, depth, html=True, math=False, n=None):
    n = rng.randint(0, 3) if n is None else n
    return [rblock(rng, depth, html, math) for _ in range(n)]


def rblock(rng, depth, html=True, math=False):
    kinds = ['Paragraph', 'Paragraph', 'Heading', 'SetextHeading', 'BlockCode', 'CodeFence', 'ThematicBreak', 'Table']
    if html:
        kinds.append('HtmlBlock')
    if depth > 0:
        kinds += ['Quote', 'List', 'List']
    k = rng.choice(kinds)
    if k == 'Paragraph':
        return [15, rinlines(rng, 2, html, math)]
    if k == 'Heading':
        return [12, rng.randint(1, 6), rng.choice(['', '#', '##']), rinlines(rng, 2, html, math)]
    if k == 'SetextHeading':
        lvl = rng.randint(1, 2)
        return [13, lvl, ('=' if lvl == 1 else '-') * rng.randint(1, 4), rinlines(rng, 2, html, math)]
    if k == 'BlockCode':
        return [16, rstr(rng) + '\n']
    if k == 'CodeFence':
        lang = rstr(rng, 2).split(' ')[0].split('\n')[0].split('\t')[0]
        return [17, rng.randint(0, 3), rng.choice(['```', '~~~', '````']), lang + rng.choice(['', ' x']), lang, rstr(rng) + rng.choice(['', '\n'])]
    if k == 'ThematicBreak':
        return [23, rng.choice(['---', '***', '_ _ _'])]
    if k == 'HtmlBlock':
        return [24, rng.choice(['<div>', '<!-- x -->', '<pre>\n</pre>', '<table><tr>']) + rstr(rng, 2)]
    if k == 'Quote':
        return [14, rblocks(rng, depth - 1, html, math)]
    if k == 'List':
        start = rng.choice([None, None, 0, 1, 2, 7, 123456789])
        loose = rng.random() < 0.5
        items = []
        for _ in range(rng.randint(1, 3)):
            ld = rng.choice(['-', '+', '*']) if start is None else str(start) + rng.choice('.)')
            items.append([19, ld, rng.randint(0, 3), len(ld) + rng.randint(1, 4), loose, rblocks(rng, depth - 1, html, math)])
        return [18, opt(start), loose, items]
    if k == 'Table':
        ncol = rng.randint(1, 3)
        hdr = rng.random() < 0.7
        ca = [opt(rng.choice([None, 0, 1])) for _ in range(ncol)] if hdr else [[]]

        def row():
            al = ca if hdr else [[]]
            return [21, al, [[22, al[i] if i < len(al) else [], rinlines(rng, 1, html, math)] for i in range(max(len(al), rng.randint(1, 3)))]]
        return [20, ca, [row()] if hdr else [], [row() for _ in range(rng.randint(0, 2))]]
    raise AssertionError(k)


def rdoc(rng, html=True, math=False):
    return [25, rblocks(rng, 2, html, math, n=rng.randint(0, 4))]


def undump(w):
    """a wire tree as decoded from the model (strings are lists of code points) -> the dump() shape"""
    from harness.core import dstr
    tag = w[0]
    name = NAMES[tag]
    S = dstr
    K = lambda x: [undump(c) for c in x]  # noqa: E731
    O = lambda x: [S(y) if isinstance(y, list) else y for y in x]  # noqa: E731
    if name in ('RawText', 'HtmlSpan', 'Math', 'BlockCode', 'ThematicBreak', 'HtmlBlock'):
        return [tag, S(w[1])]
    if name in ('Strong', 'Emphasis'):
        return [tag, S(w[1]), K(w[2])]
    if name in ('Strikethrough', 'EscapeSequence', 'Quote', 'Paragraph', 'Document', 'LinkReferenceDefinitionBlock'):
        return [tag, K(w[1])]
    if name == 'BlankLine':
        return [tag]
    if name == 'InlineCode':
        return [tag, S(w[1]), S(w[2]), S(w[3])]
    if name in ('Image', 'Link'):
        return [tag, S(w[1]), S(w[2]), S(w[3]), [S(x) for x in w[4]], S(w[5]), K(w[6])]
    if name == 'AutoLink':
        return [tag, S(w[1]), bool(w[2]), K(w[3])]
    if name == 'LineBreak':
        return [tag, S(w[1]), bool(w[2])]
    if name == 'Heading':
        return [tag, w[1], S(w[2]), K(w[3])]
    if name == 'SetextHeading':
        return [tag, w[1], S(w[2]), K(w[3])]
    if name == 'CodeFence':
        return [tag, w[1], S(w[2]), S(w[3]), S(w[4]), S(w[5])]
    if name == 'List':
        return [tag, list(w[1]), bool(w[2]), K(w[3])]
    if name == 'ListItem':
        return [tag, S(w[1]), w[2], w[3], bool(w[4]), K(w[5])]
    if name == 'Table':
        return [tag, [list(a) for a in w[1]], K(w[2]), K(w[3])]
    if name == 'TableRow':
        return [tag, [list(a) for a in w[1]], K(w[2])]
    if name == 'TableCell':
        return [tag, list(w[1]), K(w[2])]
    if name == 'LinkReferenceDefinition':
        return [tag, S(w[1]), S(w[2]), S(w[3]), S(w[4]), S(w[5])]
    raise DumpError(name)


def block_line_numbers(t):
    """pre-order line numbers of the block tokens below t (a table: itself, header row and cells, body rows and cells)"""
    from mistletoe import block_token
    out = []
    for c in (t.children or ()):
        if isinstance(c, block_token.BlockToken):
            out.append(c.line_number)
            if type(c).__name__ == 'Table' and 'header' in vars(c):
                out.append(c.header.line_number)
                out += block_line_numbers(c.header)
            out += block_line_numbers(c)
    return out
