"""Translator: escaping data of html_renderer.py and latex_renderer.py ->
Gen/GenEscapes.v.  Reads the SOURCE TEXT of /repo with the Python `ast`
module; fails closed (raises) on any shape it does not know."""
import ast
import os

REPO = os.environ.get('VERIF_REPO', '/repo')


class Unknown(Exception):
    pass


def coq_str(s):
    return '[' + '; '.join(str(ord(c)) for c in s) + ']%Z'


def methods(path, clsname):
    tree = ast.parse(open(path, encoding='utf8').read())
    for node in tree.body:
        if isinstance(node, ast.ClassDef) and node.name == clsname:
            return {f.name: f for f in node.body if isinstance(f, ast.FunctionDef)}
    raise Unknown('class %s not found in %s' % (clsname, path))


def body_wo_doc(f):
    b = f.body
    if b and isinstance(b[0], ast.Expr) and isinstance(b[0].value, ast.Constant) and isinstance(b[0].value.value, str):
        b = b[1:]
    return b


def const(e):
    if isinstance(e, ast.Constant) and isinstance(e.value, str):
        return e.value
    raise Unknown('expected a string literal, got ' + ast.dump(e)[:80])


def is_call(e, obj, attr):
    return (isinstance(e, ast.Call) and isinstance(e.func, ast.Attribute) and e.func.attr == attr
            and isinstance(e.func.value, ast.Name) and e.func.value.id == obj)


def token_attr(e):
    """token.X  or  token.children[0].content  ->  name of the attribute read"""
    if isinstance(e, ast.Attribute) and isinstance(e.value, ast.Name) and e.value.id == 'token':
        return e.attr
    if (isinstance(e, ast.Attribute) and e.attr == 'content' and isinstance(e.value, ast.Subscript)
            and isinstance(e.value.value, ast.Attribute) and e.value.value.attr == 'children'
            and isinstance(e.value.slice, ast.Constant) and e.value.slice.value == 0):
        return 'children[0].content'
    return None


def classify(e, want_attr):
    """which escaping the source applies to token.<want_attr> in expression e"""
    a = token_attr(e)
    if a is not None:
        if a != want_attr:
            raise Unknown('hole filled from token.%s, expected token.%s' % (a, want_attr))
        return 'FRaw'
    if is_call(e, 'html', 'escape') and len(e.args) == 1 and not e.keywords:
        if classify(e.args[0], want_attr) != 'FRaw':
            raise Unknown('nested escaping')
        return 'FHtmlEscape'
    if is_call(e, 'self', 'escape_url') and len(e.args) == 1 and not e.keywords:
        if classify(e.args[0], want_attr) != 'FRaw':
            raise Unknown('nested escaping')
        return 'FEscapeUrl'
    if is_call(e, 'self', 'escape_html_text') and len(e.args) == 1 and not e.keywords:
        if classify(e.args[0], want_attr) != 'FRaw':
            raise Unknown('nested escaping')
        return 'FEscapeText'
    raise Unknown('unrecognised hole expression: ' + ast.unparse(e))


def fmt_call(e):
    """CONST.format(args...) -> (template, args, kwargs)"""
    if isinstance(e, ast.Call) and isinstance(e.func, ast.Attribute) and e.func.attr == 'format':
        return e.func.value, e.args, {k.arg: k.value for k in e.keywords}
    raise Unknown('expected str.format call: ' + ast.unparse(e))


def assigns(stmts):
    """flat map  name -> value expr  for simple assignments (top level only)"""
    out = {}
    for s in stmts:
        if isinstance(s, ast.Assign) and len(s.targets) == 1 and isinstance(s.targets[0], ast.Name):
            out[s.targets[0].id] = s.value
    return out


def title_if(stmts, attr='title'):
    """if token.title: title = ' title="{}"'.format(F(token.title)) else: title = ''"""
    for s in stmts:
        if isinstance(s, ast.If) and token_attr(s.test) == attr:
            if len(s.body) != 1 or len(s.orelse) != 1:
                raise Unknown('title if-shape')
            t, args, kw = fmt_call(s.body[0].value)
            if const(t) != ' title="{}"' or len(args) != 1 or kw:
                raise Unknown('title template changed: ' + ast.unparse(s.body[0].value))
            if const(s.orelse[0].value) != '':
                raise Unknown('title else-branch')
            return classify(args[0], attr)
    raise Unknown('no `if token.title` found')


def expect_return_format(f, template, names):
    """the method returns TEMPLATE.format(...) with TEMPLATE == template"""
    b = body_wo_doc(f)
    env = assigns(b)
    ret = [s for s in b if isinstance(s, ast.Return)]
    if len(ret) != 1:
        raise Unknown('%s: expected exactly one top-level return' % f.name)
    t, args, kw = fmt_call(ret[0].value)
    if isinstance(t, ast.Name):
        t = env.get(t.id)
    if const(t) != template:
        raise Unknown('%s: template is %r, model expects %r' % (f.name, const(t), template))
    return env, args, kw


def resolve(e, env):
    return env[e.id] if isinstance(e, ast.Name) and e.id in env else e


def html_part():
    m = methods(os.path.join(REPO, 'mistletoe', 'html_renderer.py'), 'HtmlRenderer')
    out = {}
    # escape_html_text: ordered chain of single-character replacements
    chain = []
    b = body_wo_doc(m['escape_html_text'])
    if not (isinstance(b[-1], ast.Return) and isinstance(b[-1].value, ast.Name) and b[-1].value.id == 's'):
        raise Unknown('escape_html_text: does not end in `return s`')

    def repl(st):
        if not (isinstance(st, ast.Assign) and len(st.targets) == 1 and isinstance(st.targets[0], ast.Name)
                and st.targets[0].id == 's' and is_call(st.value, 's', 'replace') and len(st.value.args) == 2
                and not st.value.keywords):
            raise Unknown('escape_html_text: statement is not `s = s.replace(a, b)`: ' + ast.unparse(st))
        a, r = const(st.value.args[0]), const(st.value.args[1])
        if len(a) != 1:
            raise Unknown('escape_html_text: multi-character pattern %r' % a)
        return a, r
    for st in b[:-1]:
        if isinstance(st, ast.If):
            flag = st.test
            if not (isinstance(flag, ast.Attribute) and isinstance(flag.value, ast.Name) and flag.value.id == 'self'):
                raise Unknown('escape_html_text: unknown guard ' + ast.unparse(flag))
            g = {'html_escape_double_quotes': 'GDouble', 'html_escape_single_quotes': 'GSingle'}.get(flag.attr)
            if g is None or st.orelse:
                raise Unknown('escape_html_text: unknown guard ' + ast.unparse(flag))
            for s2 in st.body:
                chain.append((g,) + repl(s2))
        else:
            chain.append(('GAlways',) + repl(st))
    out['html_text_chain'] = chain
    # escape_url: html.escape(quote(raw, safe=...))
    b = body_wo_doc(m['escape_url'])
    if len(b) != 1 or not isinstance(b[0], ast.Return):
        raise Unknown('escape_url: shape')
    e = b[0].value
    outer = 'FRaw'
    if is_call(e, 'html', 'escape') and len(e.args) == 1 and not e.keywords:
        outer = 'FHtmlEscape'
        e = e.args[0]
    if not (isinstance(e, ast.Call) and isinstance(e.func, ast.Name) and e.func.id == 'quote' and len(e.args) == 1
            and isinstance(e.args[0], ast.Name) and e.args[0].id == 'raw'
            and [k.arg for k in e.keywords] == ['safe']):
        raise Unknown('escape_url: expected quote(raw, safe=...)')
    safe = const(e.keywords[0].value)
    if any(ord(c) > 127 for c in safe):
        raise Unknown('escape_url: non-ASCII safe set')
    out['html_url_outer'] = outer
    out['html_url_safe'] = safe
    # render_to_plain leaf
    b = body_wo_doc(m['render_to_plain'])
    if not (len(b) == 2 and isinstance(b[0], ast.If) and isinstance(b[1], ast.Return)):
        raise Unknown('render_to_plain: shape')
    out['html_plain_leaf'] = classify(b[1].value, 'content')
    # render_image
    env, args, kw = expect_return_format(m['render_image'], '<img src="{}" alt="{}"{} />', [])
    if len(args) != 3 or kw:
        raise Unknown('render_image: arguments')
    out['html_image_src'] = classify(resolve(args[0], env), 'src')
    a1 = resolve(args[1], env)
    if not (is_call(a1, 'self', 'render_to_plain') and len(a1.args) == 1 and isinstance(a1.args[0], ast.Name) and a1.args[0].id == 'token'):
        raise Unknown('render_image: alt is not render_to_plain(token)')
    if not (isinstance(args[2], ast.Name) and args[2].id == 'title'):
        raise Unknown('render_image: third hole is not `title`')
    out['html_image_title'] = title_if(body_wo_doc(m['render_image']))
    # render_link
    env, args, kw = expect_return_format(m['render_link'], '<a href="{target}"{title}>{inner}</a>', [])
    if args or sorted(kw) != ['inner', 'target', 'title']:
        raise Unknown('render_link: arguments')
    out['html_link_target'] = classify(resolve(kw['target'], env), 'target')
    inner = resolve(kw['inner'], env)
    if not is_call(inner, 'self', 'render_inner'):
        raise Unknown('render_link: inner')
    out['html_link_title'] = title_if(body_wo_doc(m['render_link']))
    # render_auto_link
    f = m['render_auto_link']
    env, args, kw = expect_return_format(f, '<a href="{target}">{inner}</a>', [])
    ifs = [s for s in body_wo_doc(f) if isinstance(s, ast.If)]
    if len(ifs) != 1 or token_attr(ifs[0].test) != 'mailto' or len(ifs[0].body) != 1 or len(ifs[0].orelse) != 1:
        raise Unknown('render_auto_link: if-shape')
    t, a, k = fmt_call(ifs[0].body[0].value)
    if const(t) != 'mailto:{}' or len(a) != 1 or k:
        raise Unknown('render_auto_link: mailto template')
    out['html_autolink_mailto'] = classify(a[0], 'target')
    out['html_autolink_target'] = classify(ifs[0].orelse[0].value, 'target')
    # render_block_code
    f = m['render_block_code']
    env, args, kw = expect_return_format(f, '<pre><code{attr}>{inner}</code></pre>', [])
    out['html_code_inner'] = classify(resolve(kw['inner'], env), 'content')
    ifs = [s for s in body_wo_doc(f) if isinstance(s, ast.If)]
    if len(ifs) != 1 or token_attr(ifs[0].test) != 'language':
        raise Unknown('render_block_code: if-shape')
    t, a, k = fmt_call(ifs[0].body[0].value)
    if const(t) != ' class="{}"' or len(a) != 1:
        raise Unknown('render_block_code: class template')
    t2, a2, k2 = fmt_call(a[0])
    if const(t2) != 'language-{}' or len(a2) != 1:
        raise Unknown('render_block_code: language template')
    out['html_code_language'] = classify(a2[0], 'language')
    # render_inline_code
    f = m['render_inline_code']
    env, args, kw = expect_return_format(f, '<code>{}</code>', [])
    out['html_inline_code_inner'] = classify(resolve(args[0], env), 'children[0].content')
    # render_raw_text
    b = body_wo_doc(m['render_raw_text'])
    if len(b) != 1 or not isinstance(b[0], ast.Return):
        raise Unknown('render_raw_text: shape')
    out['html_raw_text'] = classify(b[0].value, 'content')
    return out


def generate():
    h = html_part()
    lines = ['(* GENERATED from /repo/mistletoe/html_renderer.py by harness/gen/gen_escapes.py -- do not edit *)',
             'From Coq Require Import ZArith List.',
             'From Mistletoe Require Import Base.Sx Model.Fillers.',
             'Import ListNotations.', '']
    ch = ';\n   '.join('(%s, %d%%Z, %s)' % (g, ord(a), coq_str(r)) for (g, a, r) in h['html_text_chain'])
    lines.append('Definition html_text_chain : chain :=\n  [%s].' % ch)
    lines.append('Definition html_url_safe : str := %s.' % coq_str(h['html_url_safe']))
    for k in ['html_url_outer', 'html_plain_leaf', 'html_image_src', 'html_image_title', 'html_link_target',
              'html_link_title', 'html_autolink_mailto', 'html_autolink_target', 'html_code_inner',
              'html_code_language', 'html_inline_code_inner', 'html_raw_text']:
        lines.append('Definition %s : filler := %s.' % (k, h[k]))
    return {'GenEscapes.v': '\n'.join(lines) + '\n'}


if __name__ == '__main__':
    print(generate()['GenEscapes.v'])
