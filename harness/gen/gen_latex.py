"""Translator: escaping data of latex_renderer.py -> Gen/GenLatex.v (fails closed)."""
import ast
import os

from harness.gen.gen_escapes import (REPO, Unknown, assigns, body_wo_doc, const, coq_str, fmt_call, is_call,
                                     resolve, token_attr)


def latex_classify(e, want_attr):
    a = token_attr(e)
    if a is not None:
        if a != want_attr:
            raise Unknown('hole filled from token.%s, expected token.%s' % (a, want_attr))
        return 'FRaw'
    if is_call(e, 'self', 'escape_url') and len(e.args) == 1 and not e.keywords:
        if latex_classify(e.args[0], want_attr) != 'FRaw':
            raise Unknown('nested escaping')
        return 'FEscapeUrl'
    if is_call(e, 'self', 'render_raw_text') and 1 <= len(e.args) <= 2:
        # render_raw_text(token.children[0], escape=False) reads children[0].content raw
        tok = e.args[0]
        esc = True
        if len(e.args) == 2:
            if not isinstance(e.args[1], ast.Constant):
                raise Unknown('render_raw_text: non-constant escape flag')
            esc = bool(e.args[1].value)
        for k in e.keywords:
            if k.arg != 'escape' or not isinstance(k.value, ast.Constant):
                raise Unknown('render_raw_text: keyword')
            esc = bool(k.value.value)
        if not (isinstance(tok, ast.Subscript) and isinstance(tok.value, ast.Attribute) and tok.value.attr == 'children'
                and isinstance(tok.slice, ast.Constant) and tok.slice.value == 0):
            raise Unknown('render_raw_text: argument is not token.children[0]')
        if want_attr != 'children[0].content':
            raise Unknown('unexpected raw text hole')
        return 'FEscapeText' if esc else 'FRaw'
    raise Unknown('unrecognised hole expression: ' + ast.unparse(e))


def latex_part():
    path = os.path.join(REPO, 'mistletoe', 'latex_renderer.py')
    tree = ast.parse(open(path, encoding='utf8').read())
    cls = [n for n in tree.body if isinstance(n, ast.ClassDef) and n.name == 'LaTeXRenderer'][0]
    m = {f.name: f for f in cls.body if isinstance(f, ast.FunctionDef)}
    out = {}
    # _escape_table = str.maketrans({...})
    tab = None
    for st in cls.body:
        if isinstance(st, ast.Assign) and len(st.targets) == 1 and isinstance(st.targets[0], ast.Name) and st.targets[0].id == '_escape_table':
            v = st.value
            if not (is_call(v, 'str', 'maketrans') and len(v.args) == 1 and isinstance(v.args[0], ast.Dict) and not v.keywords):
                raise Unknown('_escape_table: expected str.maketrans({...})')
            tab = [(const(k), const(val)) for k, val in zip(v.args[0].keys, v.args[0].values)]
    if tab is None:
        raise Unknown('LaTeXRenderer._escape_table not found')
    if any(len(k) != 1 for k, _ in tab) or len({k for k, _ in tab}) != len(tab):
        raise Unknown('_escape_table: keys must be distinct single characters')
    out['latex_text_table'] = tab
    b = body_wo_doc(m['render_raw_text'])
    ok = (len(b) == 1 and isinstance(b[0], ast.Return) and isinstance(b[0].value, ast.IfExp)
          and isinstance(b[0].value.test, ast.Name) and b[0].value.test.id == 'escape'
          and ast.unparse(b[0].value.body) == 'token.content.translate(self._escape_table)'
          and ast.unparse(b[0].value.orelse) == 'token.content')
    args = m['render_raw_text'].args
    if not ok or [a.arg for a in args.args] != ['self', 'token', 'escape'] or len(args.defaults) != 1 \
            or not (isinstance(args.defaults[0], ast.Constant) and args.defaults[0].value is True):
        raise Unknown('render_raw_text: shape changed: ' + ast.unparse(m['render_raw_text']))
    # escape_url
    b = body_wo_doc(m['escape_url'])
    if not (len(b) == 2 and isinstance(b[0], ast.Assign) and isinstance(b[1], ast.Return)):
        raise Unknown('latex escape_url: shape')
    e = b[0].value
    if not (isinstance(e, ast.Call) and isinstance(e.func, ast.Name) and e.func.id == 'quote' and len(e.args) == 1
            and isinstance(e.args[0], ast.Name) and e.args[0].id == 'raw' and [k.arg for k in e.keywords] == ['safe']):
        raise Unknown('latex escape_url: expected quote(raw, safe=...)')
    out['latex_url_safe'] = const(e.keywords[0].value)
    var = b[0].targets[0].id
    chain = []
    r = b[1].value
    while isinstance(r, ast.Call) and isinstance(r.func, ast.Attribute) and r.func.attr == 'replace':
        if len(r.args) != 2 or r.keywords:
            raise Unknown('latex escape_url: replace shape')
        a, rep = const(r.args[0]), const(r.args[1])
        if len(a) != 1:
            raise Unknown('latex escape_url: multi-character pattern')
        chain.append((a, rep))
        r = r.func.value
    if not (isinstance(r, ast.Name) and r.id == var):
        raise Unknown('latex escape_url: return shape')
    out['latex_url_chain'] = list(reversed(chain))
    # holes
    def single_return(f):
        b = body_wo_doc(f)
        ret = [s_ for s_ in b if isinstance(s_, ast.Return)]
        if len(ret) != 1:
            raise Unknown(f.name + ': returns')
        return assigns(b), ret[0].value
    env, r = single_return(m['render_image'])
    t, a, k = fmt_call(r)
    if const(t) != '\n\\includegraphics{{{}}}\n' or len(a) != 1 or k:
        raise Unknown('latex render_image: template')
    out['latex_image_src'] = latex_classify(a[0], 'src')
    env, r = single_return(m['render_block_code'])
    t, a, k = fmt_call(r)
    t = resolve(t, env)
    if const(t) != '\n\\begin{{lstlisting}}[language={}]\n{}\\end{{lstlisting}}\n' or len(a) != 2 or k:
        raise Unknown('latex render_block_code: template')
    out['latex_code_language'] = latex_classify(a[0], 'language')
    if latex_classify(resolve(a[1], env), 'children[0].content') != 'FRaw':
        raise Unknown('latex render_block_code: body is escaped')
    env, r = single_return(m['render_link'])
    t, a, k = fmt_call(r)
    t = resolve(t, env)
    if const(t) != '\\href{{{target}}}{{{inner}}}' or a or sorted(k) != ['inner', 'target']:
        raise Unknown('latex render_link: template')
    out['latex_link_target'] = latex_classify(k['target'], 'target')
    if not is_call(resolve(k['inner'], env), 'self', 'render_inner'):
        raise Unknown('latex render_link: inner')
    env, r = single_return(m['render_auto_link'])
    t, a, k = fmt_call(r)
    if const(t) != '\\url{{{}}}' or len(a) != 1 or k:
        raise Unknown('latex render_auto_link: template')
    out['latex_autolink_target'] = latex_classify(a[0], 'target')
    env, r = single_return(m['render_inline_code'])
    if latex_classify(env['content'], 'children[0].content') != 'FRaw':
        raise Unknown('latex render_inline_code: content')
    # runtime object: the delimiter candidates
    import importlib
    import mistletoe.latex_renderer as lr
    importlib.reload(lr)
    out['latex_verb_delimiters'] = lr.verb_delimiters
    return out



def generate():
    lx = latex_part()
    lines = ['(* GENERATED from /repo/mistletoe/latex_renderer.py by harness/gen/gen_latex.py -- do not edit *)',
             'From Coq Require Import ZArith List.',
             'From Mistletoe Require Import Base.Sx Model.Fillers.',
             'Import ListNotations.', '']
    lines.append('Definition latex_text_table : list (Z * str) :=\n  [%s].' % ';\n   '.join('(%d%%Z, %s)' % (ord(a), coq_str(r)) for a, r in lx['latex_text_table']))
    lines.append('Definition latex_url_safe : str := %s.' % coq_str(lx['latex_url_safe']))
    lines.append('Definition latex_url_chain : list (Z * str) :=\n  [%s].' % '; '.join('(%d%%Z, %s)' % (ord(a), coq_str(r)) for a, r in lx['latex_url_chain']))
    for k in ['latex_image_src', 'latex_code_language', 'latex_link_target', 'latex_autolink_target']:
        lines.append('Definition %s : filler := %s.' % (k, lx[k]))
    lines.append('Definition latex_verb_delimiters : str := %s.' % coq_str(lx['latex_verb_delimiters']))
    return {'GenLatex.v': '\n'.join(lines) + '\n'}


if __name__ == '__main__':
    print(generate()['GenLatex.v'])
