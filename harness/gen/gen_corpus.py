"""Gen/GenCorpus.v from the VENDORED /verif/corpus/commonmark-0.30.json (not from /repo:
the corpus must not drift with the tree under test)."""
import json
import os

ROOT = os.path.dirname(os.path.dirname(os.path.dirname(os.path.abspath(__file__))))


def cstr(s):
    return '[' + '; '.join(str(ord(c)) for c in s) + ']'


def generate():
    data = json.load(open(os.path.join(ROOT, 'corpus', 'commonmark-0.30.json')))
    lines = ['(* GENERATED from /verif/corpus/commonmark-0.30.json by harness/gen/gen_corpus.py -- do not edit *)',
             'From Coq Require Import ZArith List.', 'Import ListNotations.', 'Local Open Scope Z_scope.', '']
    n = 0
    shards = []
    per = 28
    for i in range(0, len(data), per):
        chunk = data[i:i + per]
        name = 'corpus_%02d' % (i // per)
        shards.append(name)
        lines.append('Definition %s : list (Z * list Z * list Z) :=\n  [%s].' % (
            name, ';\n   '.join('(%d, %s, %s)' % (e['example'], cstr(e['markdown']), cstr(e['html'])) for e in chunk)))
        n += len(chunk)
    lines.append('Definition corpus_shards : list (list (Z * list Z * list Z)) := [%s].' % '; '.join(shards))
    lines.append('Definition corpus_size : Z := %d.' % n)
    return {'GenCorpus.v': '\n'.join(lines) + '\n'}


if __name__ == '__main__':
    print(generate()['GenCorpus.v'][:500])
