"""Translator: token configuration -> Gen/GenConfig.v.  For each bundled renderer,
the block and span token lists that are active inside its context (read from the
live module globals while the renderer is entered), and for each span token class
its precedence / parse_inner / parse_group."""
import importlib

RENDERERS = [('html', 'mistletoe.html_renderer', 'HtmlRenderer', {}),
             ('html_nohtml', 'mistletoe.html_renderer', 'HtmlRenderer', {'process_html_tokens': False}),
             ('markdown', 'mistletoe.markdown_renderer', 'MarkdownRenderer', {}),
             ('latex', 'mistletoe.latex_renderer', 'LaTeXRenderer', {}),
             ('ast', 'mistletoe.ast_renderer', 'AstRenderer', {}),
             ('toc', 'mistletoe.contrib.toc_renderer', 'TocRenderer', {}),
             ('wiki', 'mistletoe.contrib.github_wiki', 'GithubWikiRenderer', {}),
             ('mathjax', 'mistletoe.contrib.mathjax', 'MathJaxRenderer', {}),
             ('pygments', 'mistletoe.contrib.pygments_renderer', 'PygmentsRenderer', {}),
             ('jira', 'mistletoe.contrib.jira_renderer', 'JiraRenderer', {}),
             ('xwiki', 'mistletoe.contrib.xwiki20_renderer', 'XWiki20Renderer', {})]

SPAN_KINDS = ['EscapeSequence', 'Strikethrough', 'AutoLink', 'CoreTokens', 'InlineCode', 'LineBreak', 'RawText', 'HtmlSpan', 'Math',
              'GithubWiki', 'XWikiBlockMacroStart', 'XWikiBlockMacroEnd']
BLOCK_KINDS = ['BlockCode', 'Heading', 'Quote', 'CodeFence', 'ThematicBreak', 'List', 'Table', 'Footnote', 'Paragraph', 'HtmlBlock',
               'BlankLine', 'LinkReferenceDefinitionBlock']


def generate():
    from mistletoe import block_token, span_token
    lines = ['(* GENERATED from the live token lists by harness/gen/gen_config.py -- do not edit *)',
             'From Coq Require Import ZArith List.', 'Import ListNotations.', '',
             'Inductive span_kind := ' + ' | '.join('SK_' + k for k in SPAN_KINDS) + '.',
             'Inductive block_kind := ' + ' | '.join('BK_' + k for k in BLOCK_KINDS) + '.', '']
    block_token.reset_tokens()
    span_token.reset_tokens()
    classes = {}
    for short, modname, clsname, kw in RENDERERS:
        R = getattr(importlib.import_module(modname), clsname)
        with R(**kw):
            sp = list(span_token._token_types)
            bl = list(block_token._token_types)
        for c in sp + bl:
            classes[c.__name__] = c
        for c in sp:
            if c.__name__ not in SPAN_KINDS:
                raise RuntimeError('unknown span token class ' + c.__name__)
        for c in bl:
            if c.__name__ not in BLOCK_KINDS:
                raise RuntimeError('unknown block token class ' + c.__name__)
        lines.append('Definition span_types_%s : list span_kind := [%s].' % (short, '; '.join('SK_' + c.__name__ for c in sp)))
        lines.append('Definition block_types_%s : list block_kind := [%s].' % (short, '; '.join('BK_' + c.__name__ for c in bl)))
    if span_token._token_types != [getattr(span_token, n) for n in span_token.__all__] or \
            block_token._token_types != [getattr(block_token, n) for n in block_token.__all__]:
        raise RuntimeError('token lists are not the defaults after the contexts exited')
    lines.append('Definition span_types_default : list span_kind := [%s].' % '; '.join('SK_' + n for n in span_token.__all__))
    lines.append('Definition block_types_default : list block_kind := [%s].' % '; '.join('BK_' + n for n in block_token.__all__))
    lines.append('')
    lines.append('Definition sk_precedence (k : span_kind) : Z :=\n  match k with\n' + '\n'.join(
        '  | SK_%s => %d%%Z' % (k, classes[k].precedence) for k in SPAN_KINDS if k in classes) + '\n  end.')
    lines.append('Definition sk_parse_inner (k : span_kind) : bool :=\n  match k with\n' + '\n'.join(
        '  | SK_%s => %s' % (k, 'true' if classes[k].parse_inner else 'false') for k in SPAN_KINDS if k in classes) + '\n  end.')
    lines.append('Definition sk_parse_group (k : span_kind) : nat :=\n  match k with\n' + '\n'.join(
        '  | SK_%s => %d' % (k, classes[k].parse_group) for k in SPAN_KINDS if k in classes) + '\n  end.')
    missing = [k for k in SPAN_KINDS if k not in classes]
    if missing:
        raise RuntimeError('span kinds never registered: %s' % missing)
    return {'GenConfig.v': '\n'.join(lines) + '\n'}


if __name__ == '__main__':
    print(generate()['GenConfig.v'])
