"""Translator: character tables the code takes from the interpreter -> Gen/GenTables.v
(str.isspace == the regex category \\s for str patterns; validated against `re` here)."""
import re
import sys


def ranges(pred):
    out = []
    start = None
    for c in range(0x110000):
        if pred(c):
            if start is None:
                start = c
        elif start is not None:
            out.append((start, c - 1))
            start = None
    if start is not None:
        out.append((start, 0x10FFFF))
    return out


def fmt(rs):
    return '[' + '; '.join('(%d, %d)' % r for r in rs) + ']%Z'


def generate():
    sp = ranges(lambda c: chr(c).isspace())
    ws = re.compile(r'\s')
    for c in range(0x110000):
        if bool(ws.match(chr(c))) != chr(c).isspace():
            raise RuntimeError('re \\s and str.isspace disagree on U+%04X' % c)
    lines = ['(* GENERATED from the running interpreter by harness/gen/gen_tables.py -- do not edit *)',
             '(* python %s *)' % sys.version.split()[0],
             'From Coq Require Import ZArith List.', 'Import ListNotations.', '',
             '(* str.isspace() / regex \\s *)',
             'Definition space_ranges : list (Z * Z) := %s.' % fmt(sp)]
    return {'GenTables.v': '\n'.join(lines) + '\n'}


if __name__ == '__main__':
    print(generate()['GenTables.v'])
