"""Translator: character tables the code takes from the interpreter -> Gen/GenTables.v
(str.isspace == the regex category \\s for str patterns; validated against `re` here)."""
import re
import sys


def ranges(pred):
    out = []
    start = None
    for c in range(0x110000):
        if pred(c):
            if start is None:
                start = c
        elif start is not None:
            out.append((start, c - 1))
            start = None
    if start is not None:
        out.append((start, 0x10FFFF))
    return out


def fmt(rs):
    return '[' + '; '.join('(%d, %d)' % r for r in rs) + ']%Z'


def generate():
    sp = ranges(lambda c: chr(c).isspace())
    ws = re.compile(r'\s')
    for c in range(0x110000):
        if bool(ws.match(chr(c))) != chr(c).isspace():
            raise RuntimeError('re \\s and str.isspace disagree on U+%04X' % c)
    dg = ranges(lambda c: bool(re.match(r'\d', chr(c))))
    wd = ranges(lambda c: bool(re.match(r'\w', chr(c))))
    lines = ['(* GENERATED from the running interpreter by harness/gen/gen_tables.py -- do not edit *)',
             '(* python %s *)' % sys.version.split()[0],
             'From Coq Require Import ZArith List.', 'Import ListNotations.', '',
             '(* str.isspace() / regex \\s *)',
             'Definition space_ranges : list (Z * Z) := %s.' % fmt(sp),
             '(* regex \\d (str patterns) *)',
             'Definition digit_ranges : list (Z * Z) := %s.' % fmt(dg),
             '(* regex \\w (str patterns) *)',
             'Definition word_ranges : list (Z * Z) := %s.' % fmt(wd)]
    # ---- tables used by the parser model ----
    import html as _html
    import html.entities
    import importlib
    core = importlib.import_module('mistletoe.core_tokens')
    span = importlib.import_module('mistletoe.span_token')

    def cstr(x):
        return '[' + '; '.join(str(ord(c)) for c in x) + ']'
    lines.append('(* str.isupper() of a single character *)')
    lines.append('Definition upper_ranges : list (Z * Z) := %s.' % fmt(ranges(lambda c: chr(c).isupper())))
    dvals = ranges(lambda c: chr(c).isdecimal())
    import unicodedata
    for a, b in dvals:
        for c in range(a, b + 1):
            if unicodedata.decimal(chr(c)) != (c - a) % 10:
                raise RuntimeError('decimal digit block does not start at zero: U+%04X' % c)
    lines.append('(* int() of a decimal digit: (c - start of its block) mod 10; blocks = digit_ranges *)')
    folds = [(c, chr(c).casefold()) for c in range(0x110000) if chr(c).casefold() != chr(c)]
    blocks = {}
    for c, f in folds:
        blocks.setdefault(c // 256, []).append((c, f))
    lines.append('(* str.casefold(), grouped by c / 256 *)')
    lines.append('Definition casefold_table : list (Z * list (Z * list Z)) :=\n  [%s]%%Z.' % ';\n   '.join(
        '(%d, [%s])' % (k, '; '.join('(%d, %s)' % (c, cstr(f)) for c, f in v)) for k, v in sorted(blocks.items())))
    lines.append('(* mistletoe.core_tokens.punctuation / unicode_whitespace / whitespace (runtime objects) *)')
    lines.append('Definition punct_ranges : list (Z * Z) := %s.' % fmt(ranges(lambda c: chr(c) in core.punctuation)))
    lines.append('Definition uws_ranges : list (Z * Z) := %s.' % fmt(ranges(lambda c: chr(c) in core.unicode_whitespace)))
    lines.append('Definition ws_ranges : list (Z * Z) := %s.' % fmt(ranges(lambda c: chr(c) in core.whitespace)))
    import string as _string
    lines.append('(* CommonMark 0.30 definitions, from unicodedata (NOT from mistletoe): Unicode whitespace = Zs, tab, LF, FF, CR;')
    lines.append('   punctuation = ASCII punctuation or general category P* *)')
    lines.append('Definition spec_ws_ranges : list (Z * Z) := %s.' % fmt(ranges(lambda c: unicodedata.category(chr(c)) == 'Zs' or c in (9, 10, 12, 13))))
    lines.append('Definition spec_punct_ranges : list (Z * Z) := %s.' % fmt(ranges(lambda c: chr(c) in _string.punctuation or unicodedata.category(chr(c)).startswith('P'))))
    lines.append('(* mistletoe.span_token._tags *)')
    lines.append('Definition html_tags : list (list Z) :=\n  [%s]%%Z.' % '; '.join(cstr(t) for t in sorted(span._tags)))
    ents = sorted(html.entities.html5.items())
    lines.append('(* html.entities.html5 *)')
    lines.append('Definition html5_entities : list (list Z * list Z) :=\n  [%s]%%Z.' % ';\n   '.join('(%s, %s)' % (cstr(k), cstr(v)) for k, v in ents))
    lines.append('(* html._invalid_charrefs / _invalid_codepoints *)')
    lines.append('Definition invalid_charrefs : list (Z * list Z) := [%s]%%Z.' % '; '.join('(%d, %s)' % (k, cstr(v)) for k, v in sorted(_html._invalid_charrefs.items())))
    lines.append('Definition invalid_codepoints : list Z := [%s]%%Z.' % '; '.join(str(k) for k in sorted(_html._invalid_codepoints)))
    return {'GenTables.v': '\n'.join(lines) + '\n'}


if __name__ == '__main__':
    print(generate()['GenTables.v'])
