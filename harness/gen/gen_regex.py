"""Translator: every compiled regular expression reachable as a module or class
attribute of the mistletoe modules -> Gen/GenRegex.v, as terms of the Gallina
regex AST (Re/ReMatch.v).  Uses CPython's own parser (re._parser); fails closed
on any opcode outside the supported set."""
import importlib
import inspect
import re
import re._parser as sp
from re._constants import MAXREPEAT

MODULES = ['mistletoe.block_token', 'mistletoe.span_token', 'mistletoe.core_tokens', 'mistletoe.span_tokenizer',
           'mistletoe.markdown_renderer', 'mistletoe.latex_token', 'mistletoe.contrib.github_wiki']


class Unsupported(Exception):
    pass


CATS = {'CATEGORY_SPACE': 'CatSpace', 'CATEGORY_NOT_SPACE': 'CatNotSpace', 'CATEGORY_DIGIT': 'CatDigit',
        'CATEGORY_NOT_DIGIT': 'CatNotDigit', 'CATEGORY_WORD': 'CatWord', 'CATEGORY_NOT_WORD': 'CatNotWord'}


def seq(items):
    terms = [tr(op, av) for op, av in items]
    if not terms:
        return 'Eps'
    out = terms[-1]
    for t in reversed(terms[:-1]):
        out = '(Seq %s %s)' % (t, out)
    return out


def tr(op, av):
    o = str(op)
    if o == 'LITERAL':
        return '(Lit %d)' % av
    if o == 'NOT_LITERAL':
        return '(NotLit %d)' % av
    if o == 'ANY':
        return 'Any'
    if o == 'IN':
        neg = False
        items = []
        for io, ia in av:
            s = str(io)
            if s == 'NEGATE':
                neg = True
            elif s == 'LITERAL':
                items.append('CLit %d' % ia)
            elif s == 'RANGE':
                items.append('CRange %d %d' % ia)
            elif s == 'CATEGORY':
                if str(ia) not in CATS:
                    raise Unsupported('category ' + str(ia))
                items.append('CCat ' + CATS[str(ia)])
            else:
                raise Unsupported('IN item ' + s)
        return '(Set_ %s [%s])' % ('true' if neg else 'false', '; '.join(items))
    if o == 'BRANCH':
        alts = [seq(b) for b in av[1]]
        out = alts[-1]
        for a in reversed(alts[:-1]):
            out = '(Alt %s %s)' % (a, out)
        return out
    if o == 'SUBPATTERN':
        group, add_flags, del_flags, p = av
        if add_flags or del_flags:
            raise Unsupported('inline flags')
        inner = seq(p)
        return inner if group is None else '(Grp %d%%nat %s)' % (group, inner)
    if o in ('MAX_REPEAT', 'MIN_REPEAT'):
        mn, mx, p = av
        return '(Rep %s %d%%nat %s %s)' % ('true' if o == 'MAX_REPEAT' else 'false', mn,
                                           'None' if mx == MAXREPEAT else '(Some %d%%nat)' % mx, seq(p))
    if o == 'GROUPREF':
        return '(Bref %d%%nat)' % av
    if o in ('ASSERT', 'ASSERT_NOT'):
        direction, p = av
        width = 0
        if direction < 0:
            lo, hi = p.getwidth()
            if lo != hi:
                raise Unsupported('variable-width look-behind')
            width = lo
        return '(Look %s %s %d%%nat %s)' % ('true' if direction > 0 else 'false', 'true' if o == 'ASSERT_NOT' else 'false', width, seq(p))
    if o == 'AT':
        a = str(av)
        if a == 'AT_BEGINNING':
            return 'Bol'
        if a == 'AT_END':
            return 'Eol'
        raise Unsupported('anchor ' + a)
    raise Unsupported('opcode ' + o)


def collect():
    found = {}

    def walk(obj, prefix, modname):
        for name, val in vars(obj).items():
            if isinstance(val, re.Pattern):
                found[prefix + '_' + name] = val
            elif inspect.isclass(val) and val.__module__ == modname and val.__name__ == name:
                walk(val, prefix + '_' + name, modname)
    for m in MODULES:
        mod = importlib.import_module(m)
        walk(mod, m.split('.')[-1], m)
    return found


def ident(s):
    return re.sub(r'_+', '_', re.sub(r'[^A-Za-z0-9_]', '_', s))


def generate():
    found = collect()
    lines = ['(* GENERATED from the compiled patterns of /repo by harness/gen/gen_regex.py -- do not edit *)',
             'From Coq Require Import ZArith List.', 'From Mistletoe Require Import Re.ReMatch.', 'Import ListNotations.',
             'Local Open Scope Z_scope.', '']
    names = []
    for name in sorted(found):
        p = found[name]
        known = re.UNICODE | re.DOTALL | re.MULTILINE
        if p.flags & ~known:
            raise Unsupported('%s: flags %r' % (name, p.flags))
        term = seq(sp.parse(p.pattern, p.flags))
        n = 're_' + ident(name)
        lines.append('(* %s = %s *)' % (name, repr(p.pattern).replace('*', '\u2217').replace('"', "''")))
        lines.append('Definition %s : re := %s.' % (n, term))
        lines.append('Definition fl_%s : flags := mkFlags %s %s.' % (ident(name), 'true' if p.flags & re.DOTALL else 'false',
                                                                      'true' if p.flags & re.MULTILINE else 'false'))
        names.append((name, n))
    lines.append('')
    lines.append('(* index used by the X-re correspondence run *)')
    lines.append('Definition all_patterns : list (re * flags) :=\n  [%s].' % ';\n   '.join('(%s, fl_%s)' % (n, ident(name)) for name, n in names))
    return {'GenRegex.v': '\n'.join(lines) + '\n'}


def pattern_index():
    """names in the order of all_patterns, with the live compiled patterns"""
    found = collect()
    return [(name, found[name]) for name in sorted(found)]


if __name__ == '__main__':
    print(generate()['GenRegex.v'][:3000])
