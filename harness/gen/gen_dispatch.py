"""Translator: method resolution of the HTML-based renderers -> Gen/GenDispatch.v.
For every attribute name of HtmlRenderer: which class of R's MRO supplies it.
Read from the LIVE classes (inspect), so base-class order and added overrides
show up as data.  Also: does each contrib constructor forward **kwargs to
super().__init__ (Python ast)."""
import ast
import importlib
import inspect
import os
import sys

REPO = os.environ.get('VERIF_REPO', '/repo')


def coq_str(s):
    return '[' + '; '.join(str(ord(c)) for c in s) + ']%Z'


RENDERERS = [('html', 'mistletoe.html_renderer', 'HtmlRenderer'),
             ('toc', 'mistletoe.contrib.toc_renderer', 'TocRenderer'),
             ('wiki', 'mistletoe.contrib.github_wiki', 'GithubWikiRenderer'),
             ('mathjax', 'mistletoe.contrib.mathjax', 'MathJaxRenderer'),
             ('pygments', 'mistletoe.contrib.pygments_renderer', 'PygmentsRenderer')]


def fresh(modname):
    for m in [k for k in sys.modules if k == 'mistletoe' or k.startswith('mistletoe.')]:
        pass
    return importlib.import_module(modname)


def definer(cls, name):
    for k in cls.__mro__:
        if name in vars(k):
            return k.__name__
    return ''


def forwards_kwargs(modname, clsname):
    path = importlib.import_module(modname).__file__
    tree = ast.parse(open(path, encoding='utf8').read())
    for node in tree.body:
        if isinstance(node, ast.ClassDef) and node.name == clsname:
            for f in node.body:
                if isinstance(f, ast.FunctionDef) and f.name == '__init__':
                    if f.args.kwarg is None:
                        return False
                    kw = f.args.kwarg.arg
                    for c in ast.walk(f):
                        if (isinstance(c, ast.Call) and isinstance(c.func, ast.Attribute) and c.func.attr == '__init__'
                                and isinstance(c.func.value, ast.Call) and isinstance(c.func.value.func, ast.Name)
                                and c.func.value.func.id == 'super'):
                            return any(k.arg is None and isinstance(k.value, ast.Name) and k.value.id == kw for k in c.keywords)
                    return False
            return True   # no __init__ of its own: inherits the base constructor
    raise RuntimeError('class not found: ' + clsname)


def generate():
    html = getattr(importlib.import_module(RENDERERS[0][1]), RENDERERS[0][2])
    names = sorted(n for n in dir(html) if not (n.startswith('__') and n not in ('__init__', '__enter__', '__exit__', '__getattr__')))
    lines = ['(* GENERATED from the live renderer classes by harness/gen/gen_dispatch.py -- do not edit *)',
             'From Coq Require Import ZArith List.', 'From Mistletoe Require Import Base.Sx.', 'Import ListNotations.', '']
    lines.append('Definition method_names : list str :=\n  [%s].' % ';\n   '.join(coq_str(n) for n in names))
    for short, modname, clsname in RENDERERS:
        cls = getattr(importlib.import_module(modname), clsname)
        lines.append('(* %s: MRO = %s *)' % (clsname, ' -> '.join(k.__name__ for k in cls.__mro__)))
        lines.append('Definition definers_%s : list (str * str) :=\n  [%s].' % (
            short, ';\n   '.join('(%s, %s) (* %s <- %s *)' % (coq_str(n), coq_str(definer(cls, n)), n, definer(cls, n)) for n in names)))
        lines.append('Definition forwards_kwargs_%s : bool := %s.' % (short, 'true' if forwards_kwargs(modname, clsname) else 'false'))
    mj = importlib.import_module('mistletoe.contrib.mathjax').MathJaxRenderer
    lines.append('Definition mathjax_src : str := %s.' % coq_str(mj.mathjax_src))
    return {'GenDispatch.v': '\n'.join(lines) + '\n'}


if __name__ == '__main__':
    print(generate()['GenDispatch.v'])
