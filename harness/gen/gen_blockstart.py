"""Translator: the `start` methods of the block tokens (mistletoe/block_token.py and
markdown_renderer.BlankLine) -> Gen/GenBlockStart.v.  Reads the SOURCE TEXT of /repo with the
Python `ast` module and emits one Gallina definition per method, statement by statement; fails
closed (raises) on any statement or expression shape it does not know.  A `start` that only
answers yes/no becomes a `bool`; one that also leaves class attributes behind for `read`
(Heading.level / content / closing_sequence, CodeFence._open_info) becomes an `option` of the
tuple of those attributes in the order they are first assigned.  The hand-written model
(Model/Block.v) is PROVED equal to these definitions in Proofs/BlockStartRegen.v."""
import ast
import os

REPO = os.environ.get('VERIF_REPO', '/repo')


class Unknown(Exception):
    pass


def lit(s):
    return '[' + '; '.join(str(ord(c)) for c in s) + ']'


# (module, class, method, kind, parameters after cls/self): kind 'bool', 'state' (option of the class attributes written) or
# 'option' (None stays None, any other returned value v becomes Some v)
LINE = [('line', 'line', 'str')]
TARGETS = [('block_token', 'Quote', 'start', 'bool', LINE), ('block_token', 'Paragraph', 'start', 'bool', LINE),
           ('block_token', 'BlockCode', 'start', 'bool', LINE), ('block_token', 'Table', 'start', 'bool', LINE),
           ('block_token', 'Footnote', 'start', 'bool', LINE), ('block_token', 'ThematicBreak', 'start', 'bool', LINE),
           ('block_token', 'List', 'start', 'bool', LINE), ('markdown_renderer', 'BlankLine', 'start', 'bool', LINE),
           ('block_token', 'Heading', 'start', 'state', LINE), ('block_token', 'CodeFence', 'start', 'state', LINE),
           # HtmlBlock.start answers False or the rule number 1..7 and leaves _end_cond behind: option of (rule, _end_cond)
           ('block_token', 'HtmlBlock', 'start', 'state', LINE),
           ('block_token', 'ListItem', 'parse_marker', 'option', LINE),
           ('block_token', 'ListItem', 'parse_continuation', 'option', LINE + [('prepend', 'prepend', 'Z')]),
           # check_interrupts_paragraph(lines) looks at lines.peek() only: a function of that line
           ('block_token', 'List', 'check_interrupts_paragraph', 'bool', [('lines', 'line', 'peek')])]


class Tr:
    """sorts: 'Z', 'bool', 'str', 'match' (what pattern.match returns: option mst), 'tuple:<n>'"""

    def __init__(self, module, cls, meth, kind, params):
        self.module, self.cls, self.kind = module, cls, kind
        self.where = '%s.%s.%s' % (module, cls, meth)
        self.env = {py: (coq, srt) for (py, coq, srt) in params}
        self.done = {}           # methods translated so far: (class, method) -> (coq name, parameter sorts, result sort)
        self.state = []          # class attributes assigned, in order of first assignment

    def fail(self, e, why='unknown expression'):
        raise Unknown('%s: %s: %s' % (self.where, why, ast.dump(e)[:140]))

    def sort(self, e, want):
        t, s = self.expr(e)
        if s != want:
            self.fail(e, 'expected sort %s, found %s' % (want, s))
        return t

    def truth(self, e):
        """Python truthiness of a condition"""
        t, s = self.expr(e)
        if s == 'bool':
            return t
        if s == 'match':
            return '(match %s with Some _ => true | None => false end)' % t
        self.fail(e, 'truth value of sort %s' % s)

    def cls_attr(self, e):
        return isinstance(e, ast.Attribute) and isinstance(e.value, ast.Name) and e.value.id == 'cls'

    def expr(self, e):
        if isinstance(e, ast.Constant):
            if isinstance(e.value, bool):
                return ('true' if e.value else 'false'), 'bool'
            if isinstance(e.value, int):
                return str(e.value), 'Z'
            if isinstance(e.value, str):
                return lit(e.value), 'str'
            self.fail(e, 'unknown constant')
        if isinstance(e, ast.Attribute) and isinstance(e.value, ast.Name) and e.value.id == 'span_token' and e.attr == '_tags':
            return 'html_tags', 'strlist'          # Gen/GenTables.v: regenerated from span_token._tags
        if isinstance(e, ast.Name):
            if e.id in self.env:
                return self.env[e.id]
            self.fail(e, 'unknown name')
        if self.cls_attr(e):
            nm = 'cls_' + e.attr
            if nm in self.env:
                return self.env[nm]
            self.fail(e, 'class attribute read before it is written')
        if isinstance(e, ast.BoolOp):
            # `x or ''` on a group: the text of the group, '' when it did not take part (what gtxt returns)
            if isinstance(e.op, ast.Or) and len(e.values) == 2 and isinstance(e.values[1], ast.Constant) and e.values[1].value == '':
                t, s = self.expr(e.values[0])
                if s == 'str' and t.startswith('(gtxt '):
                    return t, 'str'
                self.fail(e, "`or ''` on something that is not a match group")
            if isinstance(e.op, ast.And) and len(e.values) == 2 and isinstance(e.values[0], ast.Compare) and len(e.values[0].ops) == 1 \
                    and isinstance(e.values[0].ops[0], ast.IsNot) and isinstance(e.values[0].comparators[0], ast.Constant) \
                    and e.values[0].comparators[0].value is None:
                t, srt = self.expr(e.values[0].left)
                if srt == 'match':
                    saved = dict(self.some)
                    self.some = dict(self.some)
                    self.some[t] = 'm'
                    second = self.truth(e.values[1])
                    self.some = saved
                    return '(match %s with Some m => %s | None => false end)' % (t, second), 'bool'
            op = ' && ' if isinstance(e.op, ast.And) else ' || '
            return '(' + op.join(self.truth(v) for v in e.values) + ')', 'bool'
        if isinstance(e, ast.UnaryOp) and isinstance(e.op, ast.Not):
            return '(negb %s)' % self.truth(e.operand), 'bool'
        if isinstance(e, ast.BinOp) and isinstance(e.op, ast.Add):
            lt, ls = self.expr(e.left)
            if ls == 'str':
                return '(%s ++ %s)' % (lt, self.sort(e.right, 'str')), 'str'
        if isinstance(e, ast.BinOp) and isinstance(e.op, (ast.Add, ast.Sub)):
            return '(%s %s %s)' % (self.sort(e.left, 'Z'), '+' if isinstance(e.op, ast.Add) else '-', self.sort(e.right, 'Z')), 'Z'
        if isinstance(e, ast.Compare) and len(e.ops) == 1:
            op, l, r = e.ops[0], e.left, e.comparators[0]
            if isinstance(op, (ast.Is, ast.IsNot)) and isinstance(r, ast.Constant) and r.value is None:
                t, srt = self.expr(l)
                if srt != 'match' and not srt.startswith('option:'):
                    self.fail(e, 'None test on sort ' + srt)
                yes, no = ('true', 'false') if isinstance(op, ast.Is) else ('false', 'true')
                return '(match %s with None => %s | Some _ => %s end)' % (t, yes, no), 'bool'
            if isinstance(op, ast.In):
                # 'c' in text
                if isinstance(l, ast.Constant) and isinstance(l.value, str) and len(l.value) == 1:
                    return '(mem %d %s)' % (ord(l.value), self.sort(r, 'str')), 'bool'
                lt, ls = self.expr(l)
                rt, rs = self.expr(r)
                if ls == 'str' and rs == 'strlist':
                    return '(str_in %s %s)' % (lt, rt), 'bool'
                self.fail(e, 'unknown membership test')
            # set(text) == {'c'}: text is not empty and holds nothing but c
            if isinstance(op, ast.Eq) and isinstance(l, ast.Call) and isinstance(l.func, ast.Name) and l.func.id == 'set' and len(l.args) == 1 \
                    and isinstance(r, ast.Set) and len(r.elts) == 1 and isinstance(r.elts[0], ast.Constant) and isinstance(r.elts[0].value, str) \
                    and len(r.elts[0].value) == 1:
                t = self.sort(l.args[0], 'str')
                return '(match %s with [] => false | _ => forallb (Z.eqb %d) %s end)' % (t, ord(r.elts[0].value), t), 'bool'
            lt, ls = self.expr(l)
            rt, rs = self.expr(r)
            if ls == 'str' and rs == 'str' and isinstance(op, (ast.Eq, ast.NotEq)):
                t = '(str_eqb %s %s)' % (lt, rt)
                return (t if isinstance(op, ast.Eq) else '(negb %s)' % t), 'bool'
            if ls == 'Z' and rs == 'str' and isinstance(r, ast.Constant) and len(r.value) == 1 and isinstance(op, (ast.Eq, ast.NotEq)):
                t = '(%s =? %d)' % (lt, ord(r.value))          # a character compared with a one-character literal
                return (t if isinstance(op, ast.Eq) else '(negb %s)' % t), 'bool'
            if ls == 'Z' and rs == 'Z':
                forms = {ast.Eq: '(%s =? %s)' % (lt, rt), ast.NotEq: '(negb (%s =? %s))' % (lt, rt), ast.Lt: '(%s <? %s)' % (lt, rt),
                         ast.Gt: '(%s <? %s)' % (rt, lt), ast.LtE: '(%s <=? %s)' % (lt, rt), ast.GtE: '(%s <=? %s)' % (rt, lt)}
                if type(op) in forms:
                    return forms[type(op)], 'bool'
            self.fail(e, 'unknown comparison')
        if isinstance(e, ast.Subscript) and not isinstance(e.slice, ast.Slice):
            return '(char_at %s %s)' % (self.sort(e.value, 'str'), self.sort(e.slice, 'Z')), 'Z'
        if isinstance(e, ast.Subscript) and e.slice.upper is None and e.slice.step is None and e.slice.lower is not None:
            return '(drop %s %s)' % (self.sort(e.slice.lower, 'Z'), self.sort(e.value, 'str')), 'str'
        if isinstance(e, ast.List) and all(isinstance(x, ast.Constant) and isinstance(x.value, str) for x in e.elts):
            return '[' + '; '.join(lit(x.value) for x in e.elts) + ']', 'strlist'
        if isinstance(e, ast.BinOp) and isinstance(e.op, ast.Mult) and isinstance(e.left, ast.Constant) and isinstance(e.left.value, str) \
                and len(e.left.value) == 1:
            return '(repeat %d (Z.to_nat %s))' % (ord(e.left.value), self.sort(e.right, 'Z')), 'str'
        if isinstance(e, ast.Tuple):
            parts = [self.expr(x) for x in e.elts]
            return '(' + ', '.join(p[0] for p in parts) + ')', 'tuple:' + ','.join(p[1] for p in parts)
        if isinstance(e, ast.Call) and not e.keywords:
            f = e.func
            if isinstance(f, ast.Name) and f.id == 'len' and len(e.args) == 1:
                return '(slen %s)' % self.sort(e.args[0], 'str'), 'Z'
            if isinstance(f, ast.Attribute):
                # cls.pattern.match(line)
                if f.attr == 'match' and self.cls_attr(f.value) and len(e.args) == 1:
                    nm = '%s_%s_%s' % (self.module, self.cls, f.value.attr)
                    subj = self.sort(e.args[0], 'str')
                    t = '(rmatch re_%s fl_%s %s)' % (nm, nm, subj)
                    self.subject[t] = subj
                    return t, 'match'
                if f.attr in ('group', 'end') and len(e.args) == 1 and isinstance(e.args[0], ast.Constant) and isinstance(e.args[0].value, int):
                    m = self.sort(f.value, 'match')
                    if m not in self.some:
                        self.fail(e, 'group of a match not known to have succeeded')
                    n = e.args[0].value
                    if f.attr == 'group':
                        if n == 0:      # the whole match of pattern.match(subject): subject[0:end]
                            return '(take (pos %s) %s)' % (self.some[m], self.subject[m]), 'str'
                        return '(gtxt %s %d)' % (self.some[m], n), 'str'
                    if n == 0:
                        return '(pos %s)' % self.some[m], 'Z'
                    return '(match group_span %s %d with Some (_, b) => b | None => 0 end)' % (self.some[m], n), 'Z'
                if f.attr == 'casefold' and not e.args:
                    return '(casefold %s)' % self.sort(f.value, 'str'), 'str'
                if f.attr == 'isupper' and not e.args:
                    return '(is_upper_c %s)' % self.sort(f.value, 'Z'), 'bool'
                if f.attr == 'format' and isinstance(f.value, ast.Constant) and isinstance(f.value.value, str) and f.value.value.count('{}') == 1 \
                        and f.value.value.count('{') == 1 and f.value.value.count('}') == 1 and len(e.args) == 1:
                    a, b = f.value.value.split('{}')
                    return '(%s ++ %s ++ %s)' % (lit(a), self.sort(e.args[0], 'str'), lit(b)), 'str'
                if f.attr == 'expandtabs' and len(e.args) == 1 and isinstance(e.args[0], ast.Constant) and e.args[0].value == 4:
                    return '(expandtabs4 %s)' % self.sort(f.value, 'str'), 'str'
                if f.attr == 'isdigit' and not e.args:      # on a character a \\d of the pattern matched
                    return '(is_decimal_c %s)' % self.sort(f.value, 'Z'), 'bool'
                if f.attr == 'peek' and not e.args and isinstance(f.value, ast.Name) and self.env.get(f.value.id, ('', ''))[1] == 'peek':
                    return self.env[f.value.id][0], 'str'
                if isinstance(f.value, ast.Name) and (f.value.id, f.attr) in self.done:
                    nm, psorts, rs = self.done[(f.value.id, f.attr)]
                    if len(psorts) != len(e.args):
                        self.fail(e, 'wrong number of arguments')
                    return '(%s %s)' % (nm, ' '.join(self.sort(a, ps) for a, ps in zip(e.args, psorts))), rs
                obj = f.value
                if f.attr == 'lstrip' and len(e.args) == 0:
                    return '(lstrip %s)' % self.sort(obj, 'str'), 'str'
                if f.attr == 'strip' and len(e.args) == 0:
                    return '(strip %s)' % self.sort(obj, 'str'), 'str'
                if f.attr == 'lstrip' and len(e.args) == 1 and isinstance(e.args[0], ast.Constant) and isinstance(e.args[0].value, str):
                    return '(lstrip_set %s %s)' % (lit(e.args[0].value), self.sort(obj, 'str')), 'str'
                if f.attr == 'startswith' and len(e.args) == 1 and isinstance(e.args[0], ast.Constant) and isinstance(e.args[0].value, str):
                    return '(startswith %s %s)' % (lit(e.args[0].value), self.sort(obj, 'str')), 'bool'
                if f.attr == 'replace' and len(e.args) == 3 and all(isinstance(a, ast.Constant) for a in e.args) and e.args[2].value == 1 \
                        and isinstance(e.args[0].value, str) and isinstance(e.args[1].value, str):
                    return '(replace_first %s %s %s)' % (lit(e.args[0].value), lit(e.args[1].value), self.sort(obj, 'str')), 'str'
            self.fail(e, 'unknown call')
        self.fail(e)

    some = {}      # match expressions known to be Some m on the current path -> the bound name
    subject = {}   # match expression -> the string it was made on

    def ret(self, value):
        if self.kind == 'bool':
            return self.truth(value)
        if self.kind == 'option':
            if isinstance(value, ast.Constant) and value.value is None:
                return 'None'
            if isinstance(value, ast.IfExp):
                return '(if %s then %s else %s)' % (self.truth(value.test), self.ret(value.body), self.ret(value.orelse))
            return 'Some %s' % self.expr(value)[0]
        if isinstance(value, ast.Constant) and value.value is False:
            return 'None'
        if isinstance(value, ast.Constant) and value.value is True:
            if not self.state:
                raise Unknown('%s: returns True without having written a class attribute' % self.where)
            return 'Some (%s)' % ', '.join(self.env['cls_' + a][0] for a in self.state)
        if isinstance(value, ast.Constant) and isinstance(value.value, int) and not isinstance(value.value, bool) and value.value > 0:
            if not self.state:
                raise Unknown('%s: returns a rule number without having written a class attribute' % self.where)
            return 'Some (%d, %s)' % (value.value, ', '.join(self.env['cls_' + a][0] for a in self.state))
        self.fail(value, 'a stateful start returns something other than True / False / a positive rule number')

    def block(self, stmts, k=None):
        if not stmts:
            if k is None:
                raise Unknown('%s: a path falls off the end of the method' % self.where)
            return self.block(k[0], k[1])
        st, rest = stmts[0], stmts[1:]
        if isinstance(st, ast.Expr) and isinstance(st.value, ast.Constant) and isinstance(st.value.value, str):
            return self.block(rest, k)
        if isinstance(st, ast.Return) and st.value is not None:
            return self.ret(st.value)
        if isinstance(st, ast.If):
            # `if m is None: return False` / `if not m: return False`: the rest runs with the match in hand
            test = st.test
            mexpr = None
            if isinstance(test, ast.Compare) and len(test.ops) == 1 and isinstance(test.ops[0], ast.Is) \
                    and isinstance(test.comparators[0], ast.Constant) and test.comparators[0].value is None:
                mexpr = test.left
            elif isinstance(test, ast.UnaryOp) and isinstance(test.op, ast.Not):
                mexpr = test.operand
            if isinstance(test, ast.Compare) and len(test.ops) == 1 and isinstance(test.ops[0], ast.IsNot) and not st.orelse \
                    and isinstance(test.comparators[0], ast.Constant) and test.comparators[0].value is None:
                t, srt = self.expr(test.left)
                if srt == 'match':
                    saved_env, saved_some, saved_state = dict(self.env), dict(self.some), list(self.state)
                    self.some = dict(self.some)
                    self.some[t] = 'm'
                    some_branch = self.block(st.body, (rest, k))
                    self.env, self.some, self.state = dict(saved_env), dict(saved_some), list(saved_state)
                    none_branch = self.block(rest, k)
                    self.env, self.some, self.state = saved_env, saved_some, saved_state
                    return '(match %s with Some m => %s | None => %s end)' % (t, some_branch, none_branch)
            if mexpr is not None and not st.orelse:
                t, s = self.expr(mexpr)
                if s == 'match':
                    saved_env, saved_some, saved_state = dict(self.env), dict(self.some), list(self.state)
                    none_branch = self.block(st.body, (rest, k))
                    self.env, self.some, self.state = dict(saved_env), dict(saved_some), list(saved_state)
                    self.some = dict(self.some)
                    self.some[t] = 'm'
                    some_branch = self.block(rest, k)
                    self.env, self.some, self.state = saved_env, saved_some, saved_state
                    return '(match %s with None => %s | Some m => %s end)' % (t, none_branch, some_branch)
            # `if x is not None: body` on an option-valued local: body runs with the value in hand, otherwise the rest
            if isinstance(test, ast.Compare) and len(test.ops) == 1 and isinstance(test.ops[0], ast.IsNot) \
                    and isinstance(test.comparators[0], ast.Constant) and test.comparators[0].value is None \
                    and isinstance(test.left, ast.Name) and not st.orelse:
                t, srt = self.expr(test.left)
                if srt.startswith('option:'):
                    saved_env, saved_some, saved_state = dict(self.env), dict(self.some), list(self.state)
                    self.env[test.left.id] = (test.left.id + '_v', srt[len('option:'):])
                    some_branch = self.block(st.body, (rest, k))
                    self.env, self.some, self.state = dict(saved_env), dict(saved_some), list(saved_state)
                    none_branch = self.block(rest, k)
                    self.env, self.some, self.state = saved_env, saved_some, saved_state
                    return '(match %s with Some %s_v => %s | None => %s end)' % (t, test.left.id, some_branch, none_branch)
            cond = self.truth(test)
            # an `if` without `else` whose body only re-assigns locals already bound: the locals after it
            def target_local(x):
                if isinstance(x, ast.AugAssign) and isinstance(x.target, ast.Name) and isinstance(x.op, (ast.Add, ast.Sub)):
                    return x.target.id
                if isinstance(x, ast.Assign) and len(x.targets) == 1 and isinstance(x.targets[0], ast.Name):
                    return x.targets[0].id
                return None
            if not st.orelse and st.body and all(target_local(x) in self.env and self.env[target_local(x)][1] in ('Z', 'str') for x in st.body):
                names = []
                inner = ''
                saved_env = dict(self.env)
                for x in st.body:
                    nm = target_local(x)
                    if isinstance(x, ast.AugAssign):
                        t = '(%s %s %s)' % (self.env[nm][0], '+' if isinstance(x.op, ast.Add) else '-', self.sort(x.value, 'Z'))
                        srt = 'Z'
                    else:
                        t, srt = self.expr(x.value)
                    if srt != self.env[nm][1]:
                        self.fail(x, 'local changes sort')
                    inner += '(let %s := %s in ' % (nm, t)
                    if nm not in names:
                        names.append(nm)
                self.env = saved_env
                tup = '(' + ', '.join(names) + ')' if len(names) > 1 else names[0]
                pat = "'" + tup if len(names) > 1 else names[0]
                return '(let %s := (if %s then %s%s%s else %s) in %s)' % (pat, cond, inner, tup, ')' * len(st.body), tup, self.block(rest, k))
            if not st.orelse and all(isinstance(x, ast.Assign) and len(x.targets) == 1 and self.cls_attr(x.targets[0]) for x in st.body):
                # conditional re-assignment of class attributes already written
                out = ''
                for x in st.body:
                    nm = 'cls_' + x.targets[0].attr
                    if nm not in self.env:
                        raise Unknown('%s: class attribute first written under a condition' % self.where)
                    t, s = self.expr(x.value)
                    if s != self.env[nm][1]:
                        self.fail(x.value, 'class attribute changes sort')
                    out += '(let %s := (if %s then %s else %s) in ' % (nm, cond, t, nm)
                return out + self.block(rest, k) + ')' * len(st.body)
            saved_env, saved_some, saved_state = dict(self.env), dict(self.some), list(self.state)
            yes = self.block(st.body, (rest, k))
            self.env, self.some, self.state = dict(saved_env), dict(saved_some), list(saved_state)
            no = self.block(st.orelse, (rest, k)) if st.orelse else self.block(rest, k)
            self.env, self.some, self.state = saved_env, saved_some, saved_state
            return '(if %s then %s else %s)' % (cond, yes, no)
        if isinstance(st, ast.Assign) and len(st.targets) == 1:
            tgt = st.targets[0]
            if isinstance(tgt, ast.Name):
                t, s = self.expr(st.value)
                if tgt.id in self.env and not (s == 'match' and self.env[tgt.id][1] == 'match'):      # a match local may be bound anew
                    raise Unknown('%s: local %s assigned twice' % (self.where, tgt.id))
                keep = s == 'match' or s.startswith('option:')                     # kept as its expression until it is tested
                self.env[tgt.id] = (t, s) if keep else (tgt.id, s)
                if keep:
                    return self.block(rest, k)
                return '(let %s := %s in %s)' % (tgt.id, t, self.block(rest, k))
            if self.cls_attr(tgt):
                if self.kind != 'state':
                    raise Unknown('%s: writes class attribute %s' % (self.where, tgt.attr))
                nm = 'cls_' + tgt.attr
                if tgt.attr == '_end_cond':                     # a string or None: option str
                    if isinstance(st.value, ast.Constant) and st.value.value is None:
                        t, s = 'None', 'optstr'
                    else:
                        t, s = 'Some ' + self.sort(st.value, 'str'), 'optstr'
                else:
                    t, s = self.expr(st.value)
                if nm in self.env and self.env[nm][1] != s:
                    self.fail(st.value, 'class attribute changes sort')
                if tgt.attr not in self.state:
                    self.state.append(tgt.attr)
                self.env[nm] = (nm, s)
                if s.startswith('tuple:'):
                    names = ['%s_%d' % (nm, i) for i in range(len(s.split(',')))]
                    self.env[nm] = ('(' + ', '.join(names) + ')', s)
                    return "(let '(%s) := %s in %s)" % (', '.join(names), t, self.block(rest, k))
                return '(let %s := %s in %s)' % (nm, t, self.block(rest, k))
            # a, b, c, d = some_tuple
            if isinstance(tgt, ast.Tuple) and all(isinstance(x, ast.Name) for x in tgt.elts) and isinstance(st.value, ast.Name):
                t, srt = self.expr(st.value)
                if not srt.startswith('tuple:') or len(srt[len('tuple:'):].split(',')) != len(tgt.elts):
                    self.fail(st.value, 'unpacking something that is not a tuple of that length')
                pats = []
                for x, xs in zip(tgt.elts, srt[len('tuple:'):].split(',')):
                    if x.id == '_':
                        pats.append('_')
                        continue
                    if x.id in self.env:
                        raise Unknown('%s: local %s assigned twice' % (self.where, x.id))
                    self.env[x.id] = (x.id, xs)
                    pats.append(x.id)
                return "(let '(%s) := %s in %s)" % (', '.join(pats), t, self.block(rest, k))
            # a, b, c, d = match_obj.groups()
            if isinstance(tgt, ast.Tuple) and all(isinstance(x, ast.Name) for x in tgt.elts) and isinstance(st.value, ast.Call) \
                    and isinstance(st.value.func, ast.Attribute) and st.value.func.attr == 'groups' and not st.value.args:
                m = self.sort(st.value.func.value, 'match')
                if m not in self.some:
                    self.fail(st.value, 'groups of a match not known to have succeeded')
                out = ''
                for i, x in enumerate(tgt.elts, start=1):
                    if x.id in self.env:
                        raise Unknown('%s: local %s assigned twice' % (self.where, x.id))
                    self.env[x.id] = (x.id, 'str')
                    out += '(let %s := (gtxt %s %d) in ' % (x.id, self.some[m], i)
                return out + self.block(rest, k) + ')' * len(tgt.elts)
        raise Unknown('%s: unknown statement %s' % (self.where, ast.dump(st)[:140]))


def generate():
    trees = {}
    out = ['(* GENERATED from mistletoe/block_token.py and markdown_renderer.py by harness/gen/gen_blockstart.py -- do not edit *)',
           'From Coq Require Import ZArith List Bool.',
           'From Mistletoe Require Import Base.Sx Base.PyStr Base.PyText Re.ReMatch Gen.GenTables Gen.GenRegex Model.Block.',
           'Import ListNotations.', 'Local Open Scope Z_scope.', '']
    done = {}
    for module, cls, meth, kind, params in TARGETS:
        if module not in trees:
            trees[module] = ast.parse(open(os.path.join(REPO, 'mistletoe', module + '.py'), encoding='utf8').read())
        cnode = [n for n in trees[module].body if isinstance(n, ast.ClassDef) and n.name == cls]
        if len(cnode) != 1:
            raise Unknown('class %s.%s not found' % (module, cls))
        fs = [n for n in cnode[0].body if isinstance(n, ast.FunctionDef) and n.name == meth]
        if len(fs) != 1:
            raise Unknown('%s.%s.%s not found' % (module, cls, meth))
        f = fs[0]
        decs = [d.id for d in f.decorator_list if isinstance(d, ast.Name)]
        if len(decs) != len(f.decorator_list) or decs not in (['classmethod'], ['staticmethod']):
            raise Unknown('%s.%s.%s: unknown decorators' % (module, cls, meth))
        names = [a.arg for a in f.args.args]
        want = (['cls'] if decs == ['classmethod'] else []) + [p[0] for p in params]
        if names != want or f.args.defaults or f.args.vararg or f.args.kwarg:
            raise Unknown('%s.%s.%s: unknown signature' % (module, cls, meth))
        tr = Tr(module, cls, meth, kind, params)
        tr.some, tr.subject, tr.done = {}, {}, done
        term = tr.block(f.body)
        note = '' if kind != 'state' else ': None for False, Some (%s) for True' % ', '.join(tr_state_names(f))
        out.append('(* %s.%s.%s%s *)' % (module, cls, meth, note))
        sig = ' '.join('(%s : %s)' % (coq, 'str' if srt == 'peek' else srt) for (_, coq, srt) in params)
        out.append('Definition g_%s_%s %s :=\n  %s.' % (cls, meth, sig, term))
        out.append('')
        if kind == 'option' and meth == 'parse_marker':
            done[(cls, meth)] = ('g_%s_%s' % (cls, meth), ['str'], 'option:tuple:Z,Z,str,str')
    return {'GenBlockStart.v': '\n'.join(out) + '\n'}


def tr_state_names(f):
    seen = []
    for n in ast.walk(f):
        if isinstance(n, ast.Assign) and len(n.targets) == 1 and isinstance(n.targets[0], ast.Attribute) \
                and isinstance(n.targets[0].value, ast.Name) and n.targets[0].value.id == 'cls' and n.targets[0].attr not in seen:
            seen.append(n.targets[0].attr)
    return seen


if __name__ == '__main__':
    print(generate()['GenBlockStart.v'])
