"""Translator: the `start` methods of the block tokens (mistletoe/block_token.py and
markdown_renderer.BlankLine) -> Gen/GenBlockStart.v.  Reads the SOURCE TEXT of /repo with the
Python `ast` module and emits one Gallina definition per method, statement by statement; fails
closed (raises) on any statement or expression shape it does not know.  A `start` that only
answers yes/no becomes a `bool`; one that also leaves class attributes behind for `read`
(Heading.level / content / closing_sequence, CodeFence._open_info) becomes an `option` of the
tuple of those attributes in the order they are first assigned.  The hand-written model
(Model/Block.v) is PROVED equal to these definitions in Proofs/BlockStartRegen.v."""
import ast
import os

REPO = os.environ.get('VERIF_REPO', '/repo')


class Unknown(Exception):
    pass


def lit(s):
    return '[' + '; '.join(str(ord(c)) for c in s) + ']'


# (module, class, method, kind): kind 'bool' or 'state'
TARGETS = [('block_token', 'Quote', 'start', 'bool'), ('block_token', 'Paragraph', 'start', 'bool'),
           ('block_token', 'BlockCode', 'start', 'bool'), ('block_token', 'Table', 'start', 'bool'),
           ('block_token', 'Footnote', 'start', 'bool'), ('block_token', 'ThematicBreak', 'start', 'bool'),
           ('block_token', 'List', 'start', 'bool'), ('markdown_renderer', 'BlankLine', 'start', 'bool'),
           ('block_token', 'Heading', 'start', 'state'), ('block_token', 'CodeFence', 'start', 'state')]


class Tr:
    """sorts: 'Z', 'bool', 'str', 'match' (what pattern.match returns: option mst), 'tuple:<n>'"""

    def __init__(self, module, cls, kind):
        self.module, self.cls, self.kind = module, cls, kind
        self.where = '%s.%s.start' % (module, cls)
        self.env = {'line': ('line', 'str')}
        self.state = []          # class attributes assigned, in order of first assignment

    def fail(self, e, why='unknown expression'):
        raise Unknown('%s: %s: %s' % (self.where, why, ast.dump(e)[:140]))

    def sort(self, e, want):
        t, s = self.expr(e)
        if s != want:
            self.fail(e, 'expected sort %s, found %s' % (want, s))
        return t

    def truth(self, e):
        """Python truthiness of a condition"""
        t, s = self.expr(e)
        if s == 'bool':
            return t
        if s == 'match':
            return '(match %s with Some _ => true | None => false end)' % t
        self.fail(e, 'truth value of sort %s' % s)

    def cls_attr(self, e):
        return isinstance(e, ast.Attribute) and isinstance(e.value, ast.Name) and e.value.id == 'cls'

    def expr(self, e):
        if isinstance(e, ast.Constant):
            if isinstance(e.value, bool):
                return ('true' if e.value else 'false'), 'bool'
            if isinstance(e.value, int):
                return str(e.value), 'Z'
            if isinstance(e.value, str):
                return lit(e.value), 'str'
            self.fail(e, 'unknown constant')
        if isinstance(e, ast.Name):
            if e.id in self.env:
                return self.env[e.id]
            self.fail(e, 'unknown name')
        if self.cls_attr(e):
            nm = 'cls_' + e.attr
            if nm in self.env:
                return self.env[nm]
            self.fail(e, 'class attribute read before it is written')
        if isinstance(e, ast.BoolOp):
            # `x or ''` on a group: the text of the group, '' when it did not take part (what gtxt returns)
            if isinstance(e.op, ast.Or) and len(e.values) == 2 and isinstance(e.values[1], ast.Constant) and e.values[1].value == '':
                t, s = self.expr(e.values[0])
                if s == 'str' and t.startswith('(gtxt '):
                    return t, 'str'
                self.fail(e, "`or ''` on something that is not a match group")
            op = ' && ' if isinstance(e.op, ast.And) else ' || '
            return '(' + op.join(self.truth(v) for v in e.values) + ')', 'bool'
        if isinstance(e, ast.UnaryOp) and isinstance(e.op, ast.Not):
            return '(negb %s)' % self.truth(e.operand), 'bool'
        if isinstance(e, ast.BinOp) and isinstance(e.op, (ast.Add, ast.Sub)):
            return '(%s %s %s)' % (self.sort(e.left, 'Z'), '+' if isinstance(e.op, ast.Add) else '-', self.sort(e.right, 'Z')), 'Z'
        if isinstance(e, ast.Compare) and len(e.ops) == 1:
            op, l, r = e.ops[0], e.left, e.comparators[0]
            if isinstance(op, (ast.Is, ast.IsNot)) and isinstance(r, ast.Constant) and r.value is None:
                t = self.sort(l, 'match')
                yes, no = ('true', 'false') if isinstance(op, ast.Is) else ('false', 'true')
                return '(match %s with None => %s | Some _ => %s end)' % (t, yes, no), 'bool'
            if isinstance(op, ast.In):
                # 'c' in text
                if isinstance(l, ast.Constant) and isinstance(l.value, str) and len(l.value) == 1:
                    return '(mem %d %s)' % (ord(l.value), self.sort(r, 'str')), 'bool'
                self.fail(e, 'unknown membership test')
            # set(text) == {'c'}: text is not empty and holds nothing but c
            if isinstance(op, ast.Eq) and isinstance(l, ast.Call) and isinstance(l.func, ast.Name) and l.func.id == 'set' and len(l.args) == 1 \
                    and isinstance(r, ast.Set) and len(r.elts) == 1 and isinstance(r.elts[0], ast.Constant) and isinstance(r.elts[0].value, str) \
                    and len(r.elts[0].value) == 1:
                t = self.sort(l.args[0], 'str')
                return '(match %s with [] => false | _ => forallb (Z.eqb %d) %s end)' % (t, ord(r.elts[0].value), t), 'bool'
            lt, ls = self.expr(l)
            rt, rs = self.expr(r)
            if ls == 'str' and rs == 'str' and isinstance(op, (ast.Eq, ast.NotEq)):
                t = '(str_eqb %s %s)' % (lt, rt)
                return (t if isinstance(op, ast.Eq) else '(negb %s)' % t), 'bool'
            if ls == 'Z' and rs == 'str' and isinstance(r, ast.Constant) and len(r.value) == 1 and isinstance(op, (ast.Eq, ast.NotEq)):
                t = '(%s =? %d)' % (lt, ord(r.value))          # a character compared with a one-character literal
                return (t if isinstance(op, ast.Eq) else '(negb %s)' % t), 'bool'
            if ls == 'Z' and rs == 'Z':
                forms = {ast.Eq: '(%s =? %s)' % (lt, rt), ast.NotEq: '(negb (%s =? %s))' % (lt, rt), ast.Lt: '(%s <? %s)' % (lt, rt),
                         ast.Gt: '(%s <? %s)' % (rt, lt), ast.LtE: '(%s <=? %s)' % (lt, rt), ast.GtE: '(%s <=? %s)' % (rt, lt)}
                if type(op) in forms:
                    return forms[type(op)], 'bool'
            self.fail(e, 'unknown comparison')
        if isinstance(e, ast.Subscript) and not isinstance(e.slice, ast.Slice):
            return '(char_at %s %s)' % (self.sort(e.value, 'str'), self.sort(e.slice, 'Z')), 'Z'
        if isinstance(e, ast.Tuple):
            parts = [self.expr(x) for x in e.elts]
            return '(' + ', '.join(p[0] for p in parts) + ')', 'tuple:' + ','.join(p[1] for p in parts)
        if isinstance(e, ast.Call) and not e.keywords:
            f = e.func
            if isinstance(f, ast.Name) and f.id == 'len' and len(e.args) == 1:
                return '(slen %s)' % self.sort(e.args[0], 'str'), 'Z'
            if isinstance(f, ast.Attribute):
                # cls.pattern.match(line)
                if f.attr == 'match' and self.cls_attr(f.value) and len(e.args) == 1:
                    nm = '%s_%s_%s' % (self.module, self.cls, f.value.attr)
                    return '(rmatch re_%s fl_%s %s)' % (nm, nm, self.sort(e.args[0], 'str')), 'match'
                if f.attr == 'group' and len(e.args) == 1 and isinstance(e.args[0], ast.Constant) and isinstance(e.args[0].value, int):
                    m = self.sort(f.value, 'match')
                    if m not in self.some:
                        self.fail(e, 'group of a match not known to have succeeded')
                    return '(gtxt %s %d)' % (self.some[m], e.args[0].value), 'str'
                obj = f.value
                if f.attr == 'lstrip' and len(e.args) == 0:
                    return '(lstrip %s)' % self.sort(obj, 'str'), 'str'
                if f.attr == 'strip' and len(e.args) == 0:
                    return '(strip %s)' % self.sort(obj, 'str'), 'str'
                if f.attr == 'lstrip' and len(e.args) == 1 and isinstance(e.args[0], ast.Constant) and isinstance(e.args[0].value, str):
                    return '(lstrip_set %s %s)' % (lit(e.args[0].value), self.sort(obj, 'str')), 'str'
                if f.attr == 'startswith' and len(e.args) == 1 and isinstance(e.args[0], ast.Constant) and isinstance(e.args[0].value, str):
                    return '(startswith %s %s)' % (lit(e.args[0].value), self.sort(obj, 'str')), 'bool'
                if f.attr == 'replace' and len(e.args) == 3 and all(isinstance(a, ast.Constant) for a in e.args) and e.args[2].value == 1 \
                        and isinstance(e.args[0].value, str) and isinstance(e.args[1].value, str):
                    return '(replace_first %s %s %s)' % (lit(e.args[0].value), lit(e.args[1].value), self.sort(obj, 'str')), 'str'
            self.fail(e, 'unknown call')
        self.fail(e)

    some = {}      # match expressions known to be Some m on the current path -> the bound name

    def ret(self, value):
        if self.kind == 'bool':
            return self.truth(value)
        if isinstance(value, ast.Constant) and value.value is False:
            return 'None'
        if isinstance(value, ast.Constant) and value.value is True:
            if not self.state:
                raise Unknown('%s: returns True without having written a class attribute' % self.where)
            return 'Some (%s)' % ', '.join(self.env['cls_' + a][0] for a in self.state)
        self.fail(value, 'a stateful start returns something other than True / False')

    def block(self, stmts, k=None):
        if not stmts:
            if k is None:
                raise Unknown('%s: a path falls off the end of the method' % self.where)
            return self.block(k[0], k[1])
        st, rest = stmts[0], stmts[1:]
        if isinstance(st, ast.Expr) and isinstance(st.value, ast.Constant) and isinstance(st.value.value, str):
            return self.block(rest, k)
        if isinstance(st, ast.Return) and st.value is not None:
            return self.ret(st.value)
        if isinstance(st, ast.If):
            # `if m is None: return False` / `if not m: return False`: the rest runs with the match in hand
            test = st.test
            mexpr = None
            if isinstance(test, ast.Compare) and len(test.ops) == 1 and isinstance(test.ops[0], ast.Is) \
                    and isinstance(test.comparators[0], ast.Constant) and test.comparators[0].value is None:
                mexpr = test.left
            elif isinstance(test, ast.UnaryOp) and isinstance(test.op, ast.Not):
                mexpr = test.operand
            if mexpr is not None and not st.orelse:
                t, s = self.expr(mexpr)
                if s == 'match':
                    saved_env, saved_some, saved_state = dict(self.env), dict(self.some), list(self.state)
                    none_branch = self.block(st.body, (rest, k))
                    self.env, self.some, self.state = dict(saved_env), dict(saved_some), list(saved_state)
                    self.some = dict(self.some)
                    self.some[t] = 'm'
                    some_branch = self.block(rest, k)
                    self.env, self.some, self.state = saved_env, saved_some, saved_state
                    return '(match %s with None => %s | Some m => %s end)' % (t, none_branch, some_branch)
            cond = self.truth(test)
            if not st.orelse and all(isinstance(x, ast.Assign) and len(x.targets) == 1 and self.cls_attr(x.targets[0]) for x in st.body):
                # conditional re-assignment of class attributes already written
                out = ''
                for x in st.body:
                    nm = 'cls_' + x.targets[0].attr
                    if nm not in self.env:
                        raise Unknown('%s: class attribute first written under a condition' % self.where)
                    t, s = self.expr(x.value)
                    if s != self.env[nm][1]:
                        self.fail(x.value, 'class attribute changes sort')
                    out += '(let %s := (if %s then %s else %s) in ' % (nm, cond, t, nm)
                return out + self.block(rest, k) + ')' * len(st.body)
            saved_env, saved_some, saved_state = dict(self.env), dict(self.some), list(self.state)
            yes = self.block(st.body, (rest, k))
            self.env, self.some, self.state = dict(saved_env), dict(saved_some), list(saved_state)
            no = self.block(st.orelse, (rest, k)) if st.orelse else self.block(rest, k)
            self.env, self.some, self.state = saved_env, saved_some, saved_state
            return '(if %s then %s else %s)' % (cond, yes, no)
        if isinstance(st, ast.Assign) and len(st.targets) == 1:
            tgt = st.targets[0]
            if isinstance(tgt, ast.Name):
                if tgt.id in self.env:
                    raise Unknown('%s: local %s assigned twice' % (self.where, tgt.id))
                t, s = self.expr(st.value)
                self.env[tgt.id] = (tgt.id, s) if s != 'match' else (t, s)       # a match is kept as its expression
                if s == 'match':
                    return self.block(rest, k)
                return '(let %s := %s in %s)' % (tgt.id, t, self.block(rest, k))
            if self.cls_attr(tgt):
                if self.kind != 'state':
                    raise Unknown('%s: writes class attribute %s' % (self.where, tgt.attr))
                nm = 'cls_' + tgt.attr
                t, s = self.expr(st.value)
                if nm in self.env and self.env[nm][1] != s:
                    self.fail(st.value, 'class attribute changes sort')
                if tgt.attr not in self.state:
                    self.state.append(tgt.attr)
                self.env[nm] = (nm, s)
                if s.startswith('tuple:'):
                    names = ['%s_%d' % (nm, i) for i in range(len(s.split(',')))]
                    self.env[nm] = ('(' + ', '.join(names) + ')', s)
                    return "(let '(%s) := %s in %s)" % (', '.join(names), t, self.block(rest, k))
                return '(let %s := %s in %s)' % (nm, t, self.block(rest, k))
            # a, b, c, d = match_obj.groups()
            if isinstance(tgt, ast.Tuple) and all(isinstance(x, ast.Name) for x in tgt.elts) and isinstance(st.value, ast.Call) \
                    and isinstance(st.value.func, ast.Attribute) and st.value.func.attr == 'groups' and not st.value.args:
                m = self.sort(st.value.func.value, 'match')
                if m not in self.some:
                    self.fail(st.value, 'groups of a match not known to have succeeded')
                out = ''
                for i, x in enumerate(tgt.elts, start=1):
                    if x.id in self.env:
                        raise Unknown('%s: local %s assigned twice' % (self.where, x.id))
                    self.env[x.id] = (x.id, 'str')
                    out += '(let %s := (gtxt %s %d) in ' % (x.id, self.some[m], i)
                return out + self.block(rest, k) + ')' * len(tgt.elts)
        raise Unknown('%s: unknown statement %s' % (self.where, ast.dump(st)[:140]))


def generate():
    trees = {}
    out = ['(* GENERATED from mistletoe/block_token.py and markdown_renderer.py by harness/gen/gen_blockstart.py -- do not edit *)',
           'From Coq Require Import ZArith List Bool.',
           'From Mistletoe Require Import Base.Sx Base.PyStr Base.PyText Re.ReMatch Gen.GenRegex Model.Block.',
           'Import ListNotations.', 'Local Open Scope Z_scope.', '']
    for module, cls, meth, kind in TARGETS:
        if module not in trees:
            trees[module] = ast.parse(open(os.path.join(REPO, 'mistletoe', module + '.py'), encoding='utf8').read())
        cnode = [n for n in trees[module].body if isinstance(n, ast.ClassDef) and n.name == cls]
        if len(cnode) != 1:
            raise Unknown('class %s.%s not found' % (module, cls))
        fs = [n for n in cnode[0].body if isinstance(n, ast.FunctionDef) and n.name == meth]
        if len(fs) != 1:
            raise Unknown('%s.%s.%s not found' % (module, cls, meth))
        f = fs[0]
        decs = [d.id for d in f.decorator_list if isinstance(d, ast.Name)]
        if len(decs) != len(f.decorator_list) or decs not in (['classmethod'], ['staticmethod']):
            raise Unknown('%s.%s.%s: unknown decorators' % (module, cls, meth))
        names = [a.arg for a in f.args.args]
        if names != (['cls', 'line'] if decs == ['classmethod'] else ['line']) or f.args.defaults or f.args.vararg or f.args.kwarg:
            raise Unknown('%s.%s.%s: unknown signature' % (module, cls, meth))
        tr = Tr(module, cls, kind)
        tr.some = {}
        term = tr.block(f.body)
        out.append('(* %s.%s.%s%s *)' % (module, cls, meth, '' if kind == 'bool' else ': None for False, Some (%s) for True' % ', '.join(tr_state_names(f))))
        out.append('Definition g_%s_%s (line : str) :=\n  %s.' % (cls, meth, term))
        out.append('')
    return {'GenBlockStart.v': '\n'.join(out) + '\n'}


def tr_state_names(f):
    seen = []
    for n in ast.walk(f):
        if isinstance(n, ast.Assign) and len(n.targets) == 1 and isinstance(n.targets[0], ast.Attribute) \
                and isinstance(n.targets[0].value, ast.Name) and n.targets[0].value.id == 'cls' and n.targets[0].attr not in seen:
            seen.append(n.targets[0].attr)
    return seen


if __name__ == '__main__':
    print(generate()['GenBlockStart.v'])
