"""Translator: the small pure functions of mistletoe/core_tokens.py (flanking predicates,
follows, is_control_char, Delimiter.closed_by) -> Gen/GenCore.v, and span_tokenizer.relation
-> Gen/GenSpan.v.  Reads the SOURCE TEXT of
/repo with the Python `ast` module and emits one Gallina definition per function; fails
closed (raises) on any statement or expression shape it does not know.  The hand-written
model (Model/CoreTokens.v) is then PROVED equal to these definitions (Proofs/CoreRegen.v), so
the theorems about flanking are theorems about what the source says now."""
import ast
import os

REPO = os.environ.get('VERIF_REPO', '/repo')
SRC = os.path.join(REPO, 'mistletoe', 'core_tokens.py')


class Unknown(Exception):
    pass


# module-level names the functions may mention
CHARSETS = {'punctuation': 'is_punct', 'unicode_whitespace': 'is_uws', 'whitespace': 'is_ws'}
# argument names -> (Coq name, sort)
ARGS = {'start': ('start', 'Z'), 'end': ('end_', 'Z'), 'index': ('index', 'Z'), 'string': ('s', 'str'),
        'charset': ('charset', 'Z -> bool'), 'char': ('char', 'Z'), 'self': ('self', 'delim'), 'other': ('other', 'delim'),
        'x': ('x', 'cand'), 'y': ('y', 'cand')}
FUNCS = ['preceded_by', 'succeeded_by', 'is_left_delimiter', 'is_right_delimiter', 'is_opener', 'is_closer',
         'is_control_char', 'follows']
ATTRS = {'delim': {'open': ('d_open', 'bool'), 'close': ('d_close', 'bool'), 'orig_number': ('d_orig', 'Z'), 'number': ('d_number', 'Z'),
                   'start': ('d_start', 'Z'), 'end': ('d_end', 'Z'), 'active': ('d_active', 'bool')},
         'cand': {'start': ('cs', 'Z'), 'end': ('ce', 'Z'), 'parse_start': ('ps', 'Z'), 'parse_end': ('pe', 'Z')}}


class Tr:
    """expressions are translated with their sort: 'Z' (integers and characters), 'bool', 'str', 'set'"""

    def __init__(self, fname, args, ret='bool'):
        self.fname = fname
        self.ret = ret
        self.env = {}
        for a in args:
            if a not in ARGS:
                raise Unknown('%s: unknown argument name %s' % (fname, a))
            self.env[a] = ARGS[a]

    def fail(self, e, why='unknown expression'):
        raise Unknown('%s: %s: %s' % (self.fname, why, ast.dump(e)[:120]))

    def z(self, e):
        t, s = self.expr(e)
        if s != 'Z':
            self.fail(e, 'expected an integer or a character')
        return t

    def b(self, e):
        t, s = self.expr(e)
        if s != 'bool':
            self.fail(e, 'expected a truth value')
        return t

    def expr(self, e):
        if isinstance(e, ast.Constant):
            if isinstance(e.value, bool):
                return ('true' if e.value else 'false'), 'bool'
            if isinstance(e.value, int):
                return (str(e.value) if e.value >= 0 else '(%d)' % e.value), 'Z'
            if isinstance(e.value, str) and len(e.value) == 1:
                return str(ord(e.value)), 'Z'
            self.fail(e, 'unknown constant')
        if isinstance(e, ast.Name):
            if e.id in self.env:
                return self.env[e.id]
            if e.id in CHARSETS:
                return CHARSETS[e.id], 'Z -> bool'
            self.fail(e, 'unknown name')
        if isinstance(e, ast.BoolOp):
            op = ' && ' if isinstance(e.op, ast.And) else ' || '
            parts = [self.b(v) for v in e.values]
            # Python's and/or associate to the left when chained in one BoolOp; Coq's && and || are left associative too
            return '(' + op.join(parts) + ')', 'bool'
        if isinstance(e, ast.UnaryOp) and isinstance(e.op, ast.Not):
            return '(negb %s)' % self.b(e.operand), 'bool'
        if isinstance(e, ast.IfExp):
            t1, s1 = self.expr(e.body)
            t2, s2 = self.expr(e.orelse)
            if s1 != s2:
                self.fail(e, 'branches of different sorts')
            return '(if %s then %s else %s)' % (self.b(e.test), t1, t2), s1
        if isinstance(e, ast.BinOp):
            ops = {ast.Add: '+', ast.Sub: '-', ast.Mod: 'mod'}
            if type(e.op) not in ops:
                self.fail(e, 'unknown arithmetic operator')
            return '(%s %s %s)' % (self.z(e.left), ops[type(e.op)], self.z(e.right)), 'Z'
        if isinstance(e, ast.Compare):
            if len(e.ops) != 1:
                self.fail(e, 'chained comparison')
            op, l, r = e.ops[0], e.left, e.comparators[0]
            if isinstance(op, ast.In):
                t, s = self.expr(r)
                if s != 'Z -> bool':
                    self.fail(e, 'membership in something that is not a character set')
                return '(%s %s)' % (t, self.z(l)), 'bool'
            a, bb = self.z(l), self.z(r)
            if isinstance(op, ast.Eq):
                return '(%s =? %s)' % (a, bb), 'bool'
            if isinstance(op, ast.NotEq):
                return '(negb (%s =? %s))' % (a, bb), 'bool'
            if isinstance(op, ast.Lt):
                return '(%s <? %s)' % (a, bb), 'bool'
            if isinstance(op, ast.Gt):
                return '(%s <? %s)' % (bb, a), 'bool'
            if isinstance(op, ast.LtE):
                return '(%s <=? %s)' % (a, bb), 'bool'
            if isinstance(op, ast.GtE):
                return '(%s <=? %s)' % (bb, a), 'bool'
            self.fail(e, 'unknown comparison')
        if isinstance(e, ast.Subscript):
            # string[i] -> char_at s i ; self.type[0] -> type0 self
            if isinstance(e.value, ast.Attribute) and e.value.attr == 'type' and isinstance(e.value.value, ast.Name) \
                    and e.value.value.id in ('self', 'other') and isinstance(e.slice, ast.Constant) and e.slice.value == 0:
                return '(type0 %s)' % self.env[e.value.value.id][0], 'Z'
            t, s = self.expr(e.value)
            if s != 'str' or isinstance(e.slice, ast.Slice):
                self.fail(e, 'unknown subscript')
            return '(char_at %s %s)' % (t, self.z(e.slice)), 'Z'
        if isinstance(e, ast.Attribute):
            if isinstance(e.value, ast.Name) and e.value.id in self.env and self.env[e.value.id][1] in ATTRS \
                    and e.attr in ATTRS[self.env[e.value.id][1]]:
                acc, srt = ATTRS[self.env[e.value.id][1]][e.attr]
                return '(%s %s)' % (acc, self.env[e.value.id][0]), srt
            self.fail(e, 'unknown attribute')
        if isinstance(e, ast.Call) and isinstance(e.func, ast.Name) and not e.keywords:
            f = e.func.id
            if f == 'len' and len(e.args) == 1:
                t, s = self.expr(e.args[0])
                if s != 'str':
                    self.fail(e, 'len of something that is not the string')
                return '(slen %s)' % t, 'Z'
            if f == 'ord' and len(e.args) == 1:
                return self.z(e.args[0]), 'Z'
            if f in SIGS:
                want = SIGS[f]
                if len(e.args) != len(want):
                    self.fail(e, 'wrong number of arguments')
                ts = []
                for a, (nm, srt) in zip(e.args, want):
                    t, s = self.expr(a)
                    if s != srt:
                        self.fail(e, 'argument %s of %s has sort %s, expected %s' % (nm, f, s, srt))
                    ts.append(t)
                return '(g_%s %s)' % (f, ' '.join(ts)), 'bool'
            self.fail(e, 'unknown function')
        self.fail(e)

    def block(self, stmts, k=None):
        """a block that ends in a return on every path -> one Gallina expression; k = the statements that follow the
        enclosing block, run when this one falls off its end (an `if` without `else` whose body does not return)"""
        if not stmts:
            if k is None:
                raise Unknown('%s: a path falls off the end of the function' % self.fname)
            return self.block(k[0], k[1])
        st, rest = stmts[0], stmts[1:]
        if isinstance(st, ast.Expr) and isinstance(st.value, ast.Constant) and isinstance(st.value.value, str):
            return self.block(rest, k)
        if isinstance(st, ast.Return):
            if st.value is None:
                raise Unknown('%s: bare return' % self.fname)
            t, srt = self.expr(st.value)
            if srt != self.ret:
                self.fail(st.value, 'returns a value of sort %s, expected %s' % (srt, self.ret))
            return t
        if isinstance(st, ast.If):
            test = self.b(st.test)
            saved = dict(self.env)
            yes = self.block(st.body, (rest, k))
            self.env = dict(saved)
            no = self.block(st.orelse, (rest, k)) if st.orelse else self.block(rest, k)
            self.env = saved
            return '(if %s then %s else %s)' % (test, yes, no)
        if isinstance(st, ast.Assign) and len(st.targets) == 1 and isinstance(st.targets[0], ast.Name):
            nm = st.targets[0].id
            if nm in self.env or nm in CHARSETS or nm in SIGS:
                raise Unknown('%s: assignment to %s shadows a known name' % (self.fname, nm))
            t, s = self.expr(st.value)
            self.env[nm] = (nm, s)
            return '(let %s := %s in %s)' % (nm, t, self.block(rest, k))
        raise Unknown('%s: unknown statement %s' % (self.fname, ast.dump(st)[:120]))


class TrLoop(Tr):
    """the scanning functions: a `for i, c in enumerate(string[E:], start=E)` loop over the characters, with state
    variables, early returns and a return after the loop, becomes a structurally recursive Fixpoint over the suffix
    of the string: the loop variables and every local in scope are its parameters, an assignment is a shadowing
    `let`, falling off the end of the body is the recursive call on the rest of the suffix, the statements after the
    loop are the empty-suffix case.  `return None` is None, any other returned value v is Some v."""

    def __init__(self, fname, args, out):
        Tr.__init__(self, fname, args, ret='option')
        self.out = out            # Fixpoints emitted before the function itself
        self.nloops = 0
        self.order = list(args)   # locals in scope, in order of first binding

    def bind(self, name, sort):
        if name not in self.env:
            self.order.append(name)
        elif self.env[name][1] != sort:
            raise Unknown('%s: local %s changes sort' % (self.fname, name))
        self.env[name] = (ARGS[name][0] if name in ARGS else name, sort)

    def expr(self, e):
        if isinstance(e, ast.Subscript) and isinstance(e.slice, ast.Slice) and e.slice.step is None \
                and e.slice.lower is not None and e.slice.upper is not None:
            t, srt = Tr.expr(self, e.value)
            if srt != 'str':
                self.fail(e, 'slice of something that is not the string')
            return '(substr %s %s %s)' % (t, self.z(e.slice.lower), self.z(e.slice.upper)), 'str'
        if isinstance(e, ast.UnaryOp) and isinstance(e.op, ast.USub) and isinstance(e.operand, ast.Constant) and isinstance(e.operand.value, int):
            return '(-%d)' % e.operand.value, 'Z'
        if isinstance(e, ast.Constant) and e.value == '':
            return '[]', 'str'
        if isinstance(e, ast.Compare) and len(e.ops) == 1 and isinstance(e.ops[0], (ast.Eq, ast.NotEq)) \
                and isinstance(e.comparators[0], ast.Constant) and e.comparators[0].value == '' \
                and isinstance(e.left, ast.Call) and isinstance(e.left.func, ast.Attribute) and e.left.func.attr == 'strip' and not e.left.args:
            t, srt = self.expr(e.left.func.value)
            if srt != 'str':
                self.fail(e, 'strip of something that is not a string')
            return ('(is_blank %s)' if isinstance(e.ops[0], ast.Eq) else '(negb (is_blank %s))') % t, 'bool'
        if isinstance(e, ast.Tuple):
            parts = [self.expr(x) for x in e.elts]
            return '(' + ', '.join(p[0] for p in parts) + ')', 'tuple:' + ','.join(p[1] for p in parts)
        if isinstance(e, ast.Compare) and len(e.ops) == 1 and isinstance(e.ops[0], ast.NotIn):
            t, srt = Tr.expr(self, e.comparators[0])
            if srt != 'Z -> bool':
                self.fail(e, 'membership in something that is not a character set')
            return '(negb (%s %s))' % (t, self.z(e.left)), 'bool'
        if isinstance(e, ast.Call) and isinstance(e.func, ast.Name) and e.func.id in LOOPSIGS and not e.keywords:
            want, rs = LOOPSIGS[e.func.id]
            if len(want) != len(e.args):
                self.fail(e, 'wrong number of arguments')
            ts = []
            for a, srt in zip(e.args, want):
                t, s0 = self.expr(a)
                if s0 != srt:
                    self.fail(e, 'argument of sort %s, expected %s' % (s0, srt))
                ts.append(t)
            return '(g_%s %s)' % (e.func.id, ' '.join(ts)), rs
        return Tr.expr(self, e)

    def ret_term(self, value):
        if isinstance(value, ast.Constant) and value.value is None:
            return 'None'
        t, srt = self.expr(value)
        if self.result is None:
            self.result = srt
        elif self.result != srt:
            self.fail(value, 'returns values of different sorts: %s and %s' % (self.result, srt))
        return 'Some %s' % t if self.optional else t

    result = None
    optional = True

    def block(self, stmts, k=None):
        if not stmts:
            if k is None:
                raise Unknown('%s: a path falls off the end of the function' % self.fname)
            if k[0] == 'LOOP':
                return '(%s r (i + 1) %s)' % (k[1], ' '.join(self.env[v][0] for v in k[2]))
            return self.block(k[0], k[1])
        st, rest = stmts[0], stmts[1:]
        if isinstance(st, ast.Expr) and isinstance(st.value, ast.Constant) and isinstance(st.value.value, str):
            return self.block(rest, k)
        if isinstance(st, ast.Return) and st.value is not None:
            return self.ret_term(st.value)
        if isinstance(st, ast.If):
            test = self.b(st.test)
            saved, saved_order = dict(self.env), list(self.order)
            yes = self.block(st.body, (rest, k))
            self.env, self.order = dict(saved), list(saved_order)
            no = self.block(st.orelse, (rest, k)) if st.orelse else self.block(rest, k)
            self.env, self.order = saved, saved_order
            return '(if %s then %s else %s)' % (test, yes, no)
        if isinstance(st, ast.Assign) and len(st.targets) == 1 and isinstance(st.targets[0], ast.Name):
            nm = st.targets[0].id
            if nm in CHARSETS or nm in SIGS or nm in LOOPSIGS or nm in ('i', 'c', 'r', 'l'):
                raise Unknown('%s: assignment to %s shadows a known name' % (self.fname, nm))
            t, srt = self.expr(st.value)
            self.bind(nm, srt)
            return '(let %s := %s in %s)' % (self.env[nm][0], t, self.block(rest, k))
        if isinstance(st, ast.AugAssign) and isinstance(st.target, ast.Name) and isinstance(st.op, (ast.Add, ast.Sub)) \
                and st.target.id in self.env and self.env[st.target.id][1] == 'Z':
            nm = self.env[st.target.id][0]
            t = '(%s %s %s)' % (nm, '+' if isinstance(st.op, ast.Add) else '-', self.z(st.value))
            return '(let %s := %s in %s)' % (nm, t, self.block(rest, k))
        if isinstance(st, ast.For) and not st.orelse:
            # for i, c in enumerate(<string>[E:], start=E)
            tg, it = st.target, st.iter
            ok = isinstance(tg, ast.Tuple) and [getattr(x, 'id', None) for x in tg.elts] == ['i', 'c'] \
                and isinstance(it, ast.Call) and isinstance(it.func, ast.Name) and it.func.id == 'enumerate' and len(it.args) == 1 \
                and len(it.keywords) == 1 and it.keywords[0].arg == 'start' and isinstance(it.args[0], ast.Subscript) \
                and isinstance(it.args[0].slice, ast.Slice) and it.args[0].slice.upper is None and it.args[0].slice.step is None \
                and it.args[0].slice.lower is not None and ast.dump(it.args[0].slice.lower) == ast.dump(it.keywords[0].value)
            if not ok or 'i' in self.env or 'c' in self.env:
                raise Unknown('%s: unknown loop header %s' % (self.fname, ast.dump(st)[:160]))
            subj, srt = Tr.expr(self, it.args[0].value)
            if srt != 'str':
                raise Unknown('%s: loop over something that is not the string' % self.fname)
            start = self.z(it.keywords[0].value)
            self.nloops += 1
            name = 'g_%s_loop%d' % (self.fname, self.nloops)
            params = list(self.order)
            uses_break = any(isinstance(n, ast.Break) for n in ast.walk(ast.Module(body=st.body, type_ignores=[])))
            uses_i_after = any(isinstance(n, ast.Name) and n.id == 'i' for x in rest for n in ast.walk(x))
            saved, saved_order = dict(self.env), list(self.order)
            if uses_break or uses_i_after:
                # the statements after the loop become a definition of their own: reached from `break` with the current i, and
                # from the exhausted loop with the last value i had (start + length - 1; the callers never loop over nothing)
                self.env['i'] = ('i', 'Z')
                after_name = name + '_after'
                after = self.block(rest, k)
                sig = ' '.join('(%s : %s)' % (self.env[v][0], self.env[v][1]) for v in params)
                self.out.append('Definition %s (i : Z) %s :=\n  %s.\n' % (after_name, sig, after))
                self.env, self.order = dict(saved), list(saved_order)
                self.env['i'] = ('i', 'Z')
                self.env['c'] = ('c', 'Z')
                body = self.block(st.body, ('LOOP', name, params, after_name))
                self.env, self.order = dict(saved), list(saved_order)
                exhausted = '(%s (i - 1) %s)' % (after_name, ' '.join(self.env[v][0] for v in params))
            else:
                self.env['i'] = ('i', 'Z')
                self.env['c'] = ('c', 'Z')
                body = self.block(st.body, ('LOOP', name, params, None))
                self.env, self.order = dict(saved), list(saved_order)
                exhausted = self.block(rest, k)
            self.env, self.order = saved, saved_order
            sig = ' '.join('(%s : %s)' % (self.env[v][0], self.env[v][1]) for v in params)
            self.out.append('Fixpoint %s (l : str) (i : Z) %s {struct l} :=\n  match l with\n  | [] => %s\n  | c :: r => %s\n  end.\n'
                            % (name, sig, exhausted, body))
            return '(%s (drop %s %s) %s %s)' % (name, start, subj, start, ' '.join(self.env[v][0] for v in params))
        if isinstance(st, ast.Break):
            kk = k
            while kk is not None and kk[0] != 'LOOP':
                kk = kk[1]
            if kk is None or kk[3] is None:
                raise Unknown('%s: break outside a loop' % self.fname)
            return '(%s i %s)' % (kk[3], ' '.join(self.env[v][0] for v in kk[2]))
        raise Unknown('%s: unknown statement %s' % (self.fname, ast.dump(st)[:140]))


LOOPSIGS = {}
LOOPFUNCS = [('shift_whitespace', ['string', 'index'], False), ('match_link_dest', ['string', 'offset'], True),
             ('match_link_title', ['string', 'offset'], True)]
ARGS['offset'] = ('offset', 'Z')


BLOCKLOOPS = [('match_link_label', ['string', 'offset']), ('match_link_dest', ['string', 'offset']), ('match_link_title', ['string', 'offset'])]


def translate_loop_function(f, name, coqname, want, optional, out, skip_first=None):
    a = f.args
    names = [x.arg for x in a.args]
    if skip_first is not None:
        if not names or names[0] != skip_first:
            raise Unknown('%s: unknown signature' % name)
        names = names[1:]
    if names != want or a.vararg or a.kwarg or a.kwonlyargs or a.defaults:
        raise Unknown('%s: unknown signature' % name)
    pre = []
    tr = TrLoop(coqname, want, pre)
    tr.optional = optional
    tr.result = None
    term = tr.block(f.body)
    out += pre
    params = ' '.join('(%s : %s)' % ARGS[x] for x in want)
    out.append('Definition g_%s %s :=\n  %s.\n' % (coqname, params, term))
    return tr.result


def generate_loops(top):
    out = []
    LOOPSIGS.clear()
    for name, want, optional in LOOPFUNCS:
        if name not in top:
            raise Unknown('function %s not found in core_tokens.py' % name)
        if top[name].decorator_list:
            raise Unknown('%s: unknown decorators' % name)
        out.append('(* core_tokens.%s *)' % name)
        res = translate_loop_function(top[name], name, name, want, optional, out)
        LOOPSIGS[name] = ([ARGS[x][1] for x in want], ('option:' + res) if optional else res)
    # the scanners of link reference definitions: classmethods of block_token.Footnote
    tree = ast.parse(open(os.path.join(REPO, 'mistletoe', 'block_token.py'), encoding='utf8').read())
    cls = [n for n in tree.body if isinstance(n, ast.ClassDef) and n.name == 'Footnote']
    if len(cls) != 1:
        raise Unknown('class block_token.Footnote not found')
    meth = {n.name: n for n in cls[0].body if isinstance(n, ast.FunctionDef)}
    for name, want in BLOCKLOOPS:
        if name not in meth:
            raise Unknown('Footnote.%s not found' % name)
        f = meth[name]
        decs = [d.id for d in f.decorator_list if isinstance(d, ast.Name)]
        if decs != ['classmethod'] or len(decs) != len(f.decorator_list):
            raise Unknown('Footnote.%s: unknown decorators' % name)
        out.append('(* block_token.Footnote.%s *)' % name)
        translate_loop_function(f, 'Footnote.' + name, 'fn_' + name, want, True, out, skip_first='cls')
    return out


SIGS = {}


def generate():
    tree = ast.parse(open(SRC, encoding='utf8').read())
    top = {n.name: n for n in tree.body if isinstance(n, ast.FunctionDef)}
    cls = {n.name: n for n in tree.body if isinstance(n, ast.ClassDef)}
    out = ['(* GENERATED from mistletoe/core_tokens.py by harness/gen/gen_core.py -- do not edit *)',
           'From Coq Require Import ZArith List Bool.',
           'From Mistletoe Require Import Base.Sx Base.PyStr Base.PyText Model.CoreTokens.',
           'Import ListNotations.', 'Local Open Scope Z_scope.', '']
    SIGS.clear()
    todo = []
    for name in FUNCS:
        if name not in top:
            raise Unknown('function %s not found in core_tokens.py' % name)
        f = top[name]
        a = f.args
        if a.vararg or a.kwarg or a.kwonlyargs or a.defaults or a.posonlyargs or f.decorator_list:
            raise Unknown('%s: unknown signature' % name)
        names = [x.arg for x in a.args]
        for x in names:
            if x not in ARGS:
                raise Unknown('%s: unknown argument name %s' % (name, x))
        SIGS[name] = [ARGS[x] for x in names]
        todo.append((name, names, f.body))
    if 'Delimiter' not in cls:
        raise Unknown('class Delimiter not found')
    meth = {n.name: n for n in cls['Delimiter'].body if isinstance(n, ast.FunctionDef)}
    if 'closed_by' not in meth:
        raise Unknown('Delimiter.closed_by not found')
    cb = meth['closed_by']
    if [x.arg for x in cb.args.args] != ['self', 'other'] or cb.args.defaults or cb.decorator_list:
        raise Unknown('closed_by: unknown signature')
    # the translation order is the dependency order: a function may only call functions translated before it
    done = set()
    pending = list(todo)
    progress = True
    while pending and progress:
        progress = False
        for item in list(pending):
            name, names, body = item
            calls = {n.func.id for n in ast.walk(ast.Module(body=body, type_ignores=[])) if isinstance(n, ast.Call) and isinstance(n.func, ast.Name)}
            deps = {c for c in calls if c in SIGS and c != name}
            if name in calls:
                raise Unknown('%s is recursive' % name)
            if deps <= done:
                tr = Tr(name, names)
                term = tr.block(body)
                params = ' '.join('(%s : %s)' % ARGS[x] for x in names)
                out.append('(* core_tokens.%s *)' % name)
                out.append('Definition g_%s %s : bool :=\n  %s.' % (name, params, term))
                out.append('')
                done.add(name)
                pending.remove(item)
                progress = True
    if pending:
        raise Unknown('cyclic calls among ' + ', '.join(p[0] for p in pending))
    tr = Tr('closed_by', ['self', 'other'])
    out.append('(* core_tokens.Delimiter.closed_by *)')
    out.append('Definition g_closed_by (self other : delim) : bool :=\n  %s.' % tr.block(cb.body))
    out.append('')
    out += generate_loops(top)
    return {'GenCore.v': '\n'.join(out) + '\n', 'GenSpan.v': generate_span()}


def generate_span():
    path = os.path.join(REPO, 'mistletoe', 'span_tokenizer.py')
    tree = ast.parse(open(path, encoding='utf8').read())
    top = {n.name: n for n in tree.body if isinstance(n, ast.FunctionDef)}
    if 'relation' not in top:
        raise Unknown('function relation not found in span_tokenizer.py')
    f = top['relation']
    a = f.args
    if [x.arg for x in a.args] != ['x', 'y'] or a.vararg or a.kwarg or a.kwonlyargs or a.defaults or f.decorator_list:
        raise Unknown('relation: unknown signature')
    tr = Tr('relation', ['x', 'y'], ret='Z')
    return '\n'.join(['(* GENERATED from mistletoe/span_tokenizer.py by harness/gen/gen_core.py -- do not edit *)',
                      'From Coq Require Import ZArith List Bool.',
                      'From Mistletoe Require Import Model.SpanTokenizer.',
                      'Local Open Scope Z_scope.', '',
                      '(* span_tokenizer.relation: 0 x precedes y, 1 x intersects y, 2 x contains y, 3 ignore y *)',
                      'Definition g_relation (x y : cand) : Z :=\n  %s.' % tr.block(f.body), ''])


if __name__ == '__main__':
    for k, v in generate().items():
        print(v)
