"""Seeded grammar-based generator of Markdown documents.  A draw returns the
lines written together with what the generator knows about them: for every
block its kind, nesting depth and the 1-based line on which its first
character was written; the link definitions placed; the heading outline; and
the spelling choices taken (counted, for the evidence)."""

SAFE_WORDS = ['alpha', 'beta', 'gamma', 'delta', 'lorem', 'ipsum', 'dolor', 'sit', 'amet', 'word', 'Text', 'verylongwordthatdoesnotfitanywhere',
              'x', 'Zeta', 'omega', 'naive', 'café', 'snow', 'tree', 'a1', 'b2', 'end.', 'yes,', 'no;', '(paren)', 'quo"te', "it's"]
MARKER_WORDS = ['-', '+', '1.', '2)', '#', '>', '---', '***', '===', '```', '~~~', '|', '[x]:']


class Gen:
    def __init__(self, rng, inline_level=2, max_depth=3, marker_words=False, tables=True, html=True, refs=True, tight_only=False, code=True):
        self.rng = rng
        self.inline_level = inline_level
        self.max_depth = max_depth
        self.marker_words = marker_words
        self.tables = tables
        self.html = html
        self.refs = refs
        self.code = code
        self.choices = {}
        self.block_log = []   # (kind, depth, first_line_index_within_returned_lines)
        self.labels = []

    def pick(self, name, options):
        c = self.rng.choice(options)
        key = '%s=%s' % (name, c)
        self.choices[key] = self.choices.get(key, 0) + 1
        return c

    # ---------------- inline ----------------
    def words(self, n=None):
        n = n or self.rng.randint(1, 8)
        out = []
        for _ in range(n):
            if self.marker_words and self.rng.random() < 0.25:
                out.append(self.rng.choice(MARKER_WORDS))
            else:
                out.append(self.rng.choice(SAFE_WORDS))
        return out

    def inline(self, n=None):
        """a list of inline pieces (strings); pieces are joined by single spaces"""
        rng = self.rng
        out = []
        for w in self.words(n):
            r = rng.random()
            if self.inline_level == 0 or r < 0.6:
                out.append(w)
            elif r < 0.68:
                d = self.pick('em', ['*', '_'])
                out.append(d + w + ' ' + rng.choice(SAFE_WORDS) + d)
            elif r < 0.74:
                d = self.pick('strong', ['**', '__'])
                out.append(d + w + d)
            elif r < 0.80:
                out.append('`' + w + self.pick('code_inner', ['', ' b', '  two']) + '`')
            elif r < 0.86 and self.inline_level >= 2:
                title = self.pick('title', ['', ' "ti tle"', " 'single'", ' (paren)'])
                out.append('[' + w + ' text](' + self.pick('dest', ['/url', '<a b>', 'http://x.y/z?q=1', '<>', '']) + title + ')')
            elif r < 0.89 and self.inline_level >= 2:
                out.append('![' + w + '](' + self.pick('img_dest', ['/img.png', '/img.png', '<my img.png>', '<>']) + self.pick('img_title', ['', '', ' "ti tle"', ' (paren)']) + ')')
            elif r < 0.92 and self.inline_level >= 2:
                out.append('<http://auto.link/' + w + '>')
            elif r < 0.95 and self.inline_level >= 2 and self.refs and self.labels:
                lab = rng.choice(self.labels)
                out.append(self.pick('ref', ['[%s][%s]' % (w, lab), '[%s][]' % lab, '[%s]' % lab]))
            elif r < 0.97 and self.inline_level >= 2:
                out.append('~~' + w + '~~')
            else:
                out.append(w)
        return out

    def para_lines(self, nlines=None):
        nlines = nlines or self.rng.randint(1, 3)
        lines = []
        for i in range(nlines):
            line = ' '.join(self.inline())
            if i < nlines - 1 and self.inline_level >= 1 and self.rng.random() < 0.2:
                line += self.pick('hardbreak', ['  ', '\\', ' \\', '   '])
            lines.append(line)
        return lines

    # ---------------- blocks ----------------
    def block(self, depth):
        rng = self.rng
        kinds = ['para', 'para', 'para', 'atx', 'setext', 'hr']
        if self.code:
            kinds += ['fence', 'indented']
        if depth < self.max_depth:
            kinds += ['quote', 'list', 'list']
        if self.tables:
            kinds.append('table')
        if self.html:
            kinds.append('html')
        k = rng.choice(kinds)
        self.choices['block=' + k] = self.choices.get('block=' + k, 0) + 1
        if k == 'para':
            return 'Paragraph', self.para_lines()
        if k == 'atx':
            lvl = rng.randint(1, 6)
            closing = self.pick('atx_closing', ['', ' #', ' ##'])
            return 'Heading', ['#' * lvl + ' ' + ' '.join(self.inline(rng.randint(1, 4))) + closing]
        if k == 'setext':
            ul = self.pick('underline', ['===', '---', '=', '-----'])
            return 'SetextHeading', self.para_lines(rng.randint(1, 2)) + [ul]
        if k == 'fence':
            f = self.pick('fence', ['```', '~~~', '````'])
            info = self.pick('info', ['', 'python', 'c++ extra'])
            body = [rng.choice(['code  line', '  indented', 'x = "a b"', '']) for _ in range(rng.randint(1, 3))]
            if not any(body):
                body[0] = 'code'   # an empty / blank-only fenced block is a recorded round-trip finding (C09)
            return 'CodeFence', [f + info] + body + [f]
        if k == 'indented':
            return 'BlockCode', ['    ' + rng.choice(['code  here', 'more   code']) for _ in range(rng.randint(1, 2))]
        if k == 'hr':
            return 'ThematicBreak', [self.pick('hr', ['---', '***', '___', '* * *'])]
        if k == 'html':
            return 'HtmlBlock', [self.pick('html', ['<div>', '<!-- comment  here -->', '<table><tr><td>x  y</td></tr></table>'])]
        if k == 'table':
            ncol = rng.randint(1, 3)
            row = lambda: '| ' + ' | '.join(rng.choice(SAFE_WORDS) for _ in range(ncol)) + ' |'  # noqa: E731
            sep = '| ' + ' | '.join(rng.choice(['---', ':--', ':-:', '--:']) for _ in range(ncol)) + ' |'
            return 'Table', [row(), sep] + [row() for _ in range(rng.randint(0, 2))]
        if k == 'quote':
            inner = self.blocks(depth + 1, rng.randint(1, 3))
            marker = self.pick('quote_marker', ['> ', '> ', '>'])
            return 'Quote', [(marker + ln).rstrip(' ') if ln == '' else marker + ln for ln in inner]
        if k == 'list':
            ordered = rng.random() < 0.4
            loose = rng.random() < 0.4
            bullet = self.pick('bullet', ['-', '*', '+'])
            delim = self.pick('ol_delim', ['.', ')'])
            start = rng.choice([1, 1, 2, 9])
            lines = []
            n = rng.randint(1, 3)
            for i in range(n):
                marker = (str(start + i) + delim) if ordered else bullet
                pad = self.pick('marker_pad', [1, 1, 2, 3])
                inner = self.blocks(depth + 1, rng.randint(1, 2), first_para=True)
                width = len(marker) + pad
                if rng.random() < 0.08:
                    # an item that begins with a blank line: the marker alone on its line, the content from the next line on
                    self.choices['bare_marker_item'] = self.choices.get('bare_marker_item', 0) + 1
                    width = len(marker) + 1
                    lines.append(marker)
                    inner = [''] + inner
                for j, ln in enumerate(inner):
                    if j == 0 and ln:
                        lines.append(marker + ' ' * pad + ln)
                    elif j > 0 or ln:
                        lines.append((' ' * width + ln) if ln else '')
                if loose and i < n - 1:
                    lines.append('')
            return 'List', lines
        raise AssertionError(k)

    def blocks(self, depth, n, first_para=False):
        lines = []
        prev = None
        for i in range(n):
            kind, bl = self.block(depth) if not (first_para and i == 0) else ('Paragraph', self.para_lines(1))
            if lines:
                # a blank line between blocks, except where a block may directly follow
                if not (prev in ('Heading', 'ThematicBreak', 'CodeFence') and self.rng.random() < 0.3):
                    lines.append('')
            lines += bl
            prev = kind
        return lines

    def document(self, nblocks=None):
        rng = self.rng
        if self.refs:
            self.labels = rng.sample(['foo', 'Bar', 'b az', 'ref1'], rng.randint(0, 2))
        lines = self.blocks(0, nblocks or rng.randint(1, 5))
        for lab in self.labels:
            d = '[%s]: %s%s' % (lab, self.pick('def_dest', ['/u', '<u v>', 'http://d.e/f']), self.pick('def_title', ['', ' "T t"', " 'q'"]))
            if rng.random() < 0.5:
                lines += ['', d]
            else:
                lines = [d, ''] + lines
        return '\n'.join(lines) + '\n'


def gen_doc(rng, **kw):
    g = Gen(rng, **kw)
    return g.document(), g.choices
