"""Developer helper: regenerate every Gen/*.v from /repo (checks do this themselves)."""
import os, sys
sys.path.insert(0, os.path.dirname(os.path.dirname(os.path.abspath(__file__))))
from harness import core
from harness.main import regen
ctx = core.Ctx('regen', 'quick', 0)
gens = sorted(f[:-3] for f in os.listdir(os.path.join(core.ROOT, 'harness', 'gen')) if f.endswith('.py') and not f.startswith('_'))
print(regen(gens, ctx), ctx.proof_failures)
