"""C05 — blocks separated by a blank line are parsed independently of each other."""
import multiprocessing as mp
import random

from harness import core, docgen, inputs, trees, xdoc

GEN = ['gen_tables', 'gen_regex', 'gen_config', 'gen_escapes', 'gen_blockstart']
THEOREMS = ['C05_last_block_closed_independent', 'C05_last_block_closed_hypotheses', 'C05_list_ran_off_is_last', 'C05_block_starts_are_the_source', 'C05_list_markers_are_the_source', 'C05_closed_blocks_independent', 'C05_stable_blocks_independent', 'C05_any_blocks_independent', 'C05_closed_last_independent', 'C05_closed_last_hypotheses',
            'C05_blank_lines_start_nothing', 'C05_line_numbers_shift', 'C05_blank_line_skipped', 'C05_bounded_pairs']
TRUSTED = ['the parser model (tied by X-doc on A, B and A + blank + B)',
           'vm_compute for the bounded sweep of pairs']
ASSUMPTIONS = ['C05_last_block_closed_independent states the law with the property\'s own hypotheses and nothing else: the lines are Document\'s (each ends with its only newline), '
               'A\'s last block is closed, no top-level block of A is a link-definition block (stable_run5; excluded by the property). The flags for code / fence / HTML blocks '
               'AND for lists are derived (a list that ran off the end of A is followed by blank lines only: Proofs/ListEnds.v). How many of the oracle\'s pairs meet these '
               'hypotheses is measured by evaluating them in the extracted model (coverage: hypotheses_on_A). The full statement is also kernel-checked on 781 x 13 pairs and '
               'decided on the implementation by the oracle',
               'the theorem is about the block phase (structure and line numbers); with no link definitions in A or B the inline phase is a function of each '
               'block\'s own lines',
               'A is taken with a final newline; the separator is one empty line']

CLOSED = {'Paragraph', 'Heading', 'SetextHeading', 'ThematicBreak', 'Quote', 'Table'}
OTHER_BREAKS = set('\r\x0b\x0c\x1c\x1d\x1e\x85  ')


def usable(t):
    return bool(t) and not (OTHER_BREAKS & set(t))


def nl(t):
    return t if t.endswith('\n') else t + '\n'


def parse(text, cid):
    from mistletoe import Document
    with xdoc.renderer(cid):
        d = Document(text)
        last = type(d.children[-1]).__name__ if d.children else None
        return trees.dump(d)[1], trees.block_line_numbers(d), dict(d.footnotes), last


def fresh_parse(args):
    """run in a process that has parsed nothing else: the reference for a text on its own"""
    text, cid = args
    try:
        return parse(text, cid)
    except Exception as e:
        return 'EXC %s: %s' % (type(e).__name__, e)


FRESH = {}


def worker(args):
    a, b, cid = args
    try:
        a = nl(a)
        # B on its own must not have been influenced by what this process parsed before: for the designed pairs the reference comes
        # from a fresh interpreter, and the combined text is parsed BEFORE its parts here
        tab, lab, fab, _ = parse(a + '\n' + b, cid)
        ta, la, fa, last = FRESH.get((a, cid)) or parse(a, cid)
        if fa or last not in CLOSED:
            return ('skip', 'A: ' + ('definitions' if fa else 'last block %s' % last))
        tb, lb, fb, _ = FRESH.get((b, cid)) or parse(b, cid)
        if fb:
            return ('skip', 'B: definitions')
        shift = a.count('\n') + 1
        want_t = ta + tb
        want_l = la + [x + shift for x in lb]
        if tab != want_t:
            return ('fail', 'the blocks of A + blank line + B are not the blocks of A followed by the blocks of B', tab, want_t)
        if lab != want_l:
            return ('fail', 'B\'s blocks do not report line numbers shifted by the lines that precede B', lab, want_l)
        return ('ok', last)
    except Exception as e:
        return ('exc', '%s: %s' % (type(e).__name__, e))


def run(ctx, only=None):
    ctx.cov['rule'] = ('pairs (A, B) from spec examples, mutations and splices, generated documents, random strings, with A\'s last top-level block closed '
                       '(paragraph, heading, thematic break, quote, table) and no link definitions in A or B, x token sets {Html, Html without raw HTML, LaTeX}; '
                       'non-trivial = A and B both parse to at least one block and B does not start with a paragraph; distinct = distinct (A, B, token set)')
    rng = random.Random(ctx.seed)
    n = 2500 if ctx.quick() else 30000
    pool_texts = [t for t in inputs.mixed_stream(rng, n) + [docgen.gen_doc(rng)[0] for _ in range(n // 2)] if usable(t)]
    tricky_b = ['<my-widget>\n\npara\n', '<x-y a="b">\ntext\n\nafter\n', '</my-widget>\n\npara\n', '    indented\n', '  - item\n', '---\n', '===\n', '```\nx\n', '> q\n', '| a |\n| - |\n', '</div>\n', '-->\n', '   continuation\n', '1. one\n', '# h\n',
                '\n\n    code\n', ' | - |\n', '[x]\n', '  ===\n', '\tx\n', '~~~\n', 'x\n---\n',
                # headings whose text is empty or made of # only: what Heading.start leaves behind for read() must be B's, not A's
                # list items that begin with a blank line (a bare marker), inside containers: the blocks under them have their own line origin
                '> -\n>   under a bare marker\n> - second\n', '- outer\n\n  *\n    inner\n', '> 1.\n>    # heading\n>\n>    text\n', '> para\n>\n> -\n>   ```\n>   code\n>   ```\n',
                '1. one\n2.\n   two\n\n   - \n     deep\n', '> > -\n> >   x\n',
                # empty list items followed by a blank line, in the middle of a list and at its end: whether a list is loose is its own business
                '- c\n-\n\nend\n', '- c\n-\n\n- d\n', '1.\n\n2. x\n', '- a\n-\n\n- b\n-\n\nend\n',
                '# #\n', '## ##\n\nbody\n', '### ###\n', '#\n', '# # #\n', '## \n\nbody\n', '# ##\n']
    tricky_a = ['- a\n-\n\n- b\n\nclosing words\n', '- a\n- b\n-\n\nclosing words\n', '<!-- note -->\n\npara\n', '<pre>\nx\n</pre>\n\npara\n', '<?php x ?>\n\npara\n', '<!DOCTYPE x>\n\n# h\n', '```py\nc\n```\n\npara\n', '# h ##\n\npara\n', 'para\n', '# h\n', 'h\n===\n', '***\n', '> quote\n', '> ```\n> x\n', '> - a\n', '| a |\n| - |\n| b |\n', '> <div>\n', 'a\n\n> b\nlazy\n', '- x\n\npara\n',
                '```\nc\n```\npara\n', '    code\n\npara\n', '<div>\nx\n</div>\n\npara\n', '> | a |\n> | - |\n', '> a\n> ===\n',
                '# Title\n\nIntro paragraph.\n', '## Sub title ##\n', '~~~info\nx\n~~~\n\n# Title #\n']
    pairs = [(a, b) for a in tricky_a for b in tricky_b]
    while len(pairs) < (6000 if ctx.quick() else 120000):
        a = rng.choice(pool_texts)
        b = rng.choice(tricky_b) + rng.choice(pool_texts) if rng.random() < 0.25 else rng.choice(pool_texts)
        pairs.append((a, b))
    jobs = [(a, b, cid) for (a, b) in pairs for cid in (0, 1, 3)]
    # references for the designed texts from fresh interpreters (one process per text)
    fresh_jobs = [(nl(t), c) for t in tricky_a for c in (0, 1, 3)] + [(t, c) for t in tricky_b for c in (0, 1, 3)]
    with mp.get_context('fork').Pool(core.NPROC, maxtasksperchild=1) as pool:
        for k, r in zip(fresh_jobs, pool.map(fresh_parse, fresh_jobs, chunksize=1)):
            if not isinstance(r, str):
                FRESH[k] = r
    ctx.cov['references_from_fresh_interpreters'] = len(FRESH)
    with mp.Pool(core.NPROC) as pool:
        res = pool.map(worker, jobs, chunksize=100)
    kinds = {}
    nontriv = 0
    xd = []
    for (a, b, cid), r in zip(jobs, res):
        if r[0] == 'skip':
            ctx.count('pairs_outside_side_conditions')
            continue
        if r[0] == 'exc':
            ctx.count('impl_exceptions')
            continue
        ctx.count('evaluations')
        if r[0] == 'fail':
            ctx.failing.append({'interface': 'oracle(independence)', 'input': {'A': nl(a), 'B': b, 'token_set': xdoc.CFG[cid]}, 'what': r[1],
                                'observed': r[2], 'expected': r[3], 'kf': None})
            continue
        kinds[r[1]] = kinds.get(r[1], 0) + 1
        if b.strip() and not b.lstrip('\n')[:1].isalnum():
            nontriv += 1
        if cid == 0 and len(xd) < (900 if ctx.quick() else 15000):
            xd.append(nl(a) + '\n' + b)
    ctx.cov['last_block_of_A'] = kinds
    # how many of the accepted pairs lie inside the hypotheses of C05_closed_last_independent / C05_any_blocks_independent (evaluated in the model)
    if ctx.driver_ok:
        okA = sorted({(nl(a), cid) for (a, b, cid), r in zip(jobs, res) if r[0] not in ('skip', 'exc', 'fail') and cid in (0, 1)})
        random.Random(ctx.seed).shuffle(okA)
        okA = okA[:(1500 if ctx.quick() else 20000)]
        fl = core.model_map([[50, cid, a] for a, cid in okA])
        inside = sum(1 for f in fl if f[0] == 1 and f[1] == 1)
        inside5 = sum(1 for f in fl if f[4] == 1 and f[1] == 1 and f[5] == 1)
        ctx.cov['hypotheses_on_A'] = {'texts_A_evaluated': len(okA), 'proper_lines_no_definition_block_and_closed_last': inside5,
                                      'stable_run4_and_closed_last': inside,
                                      'stable_run3': sum(1 for f in fl if f[2] == 1), 'closed_run': sum(1 for f in fl if f[3] == 1)}
        # the derivations themselves, checked on data: whenever the hypotheses of the theorem hold, stable_run3 holds
        for (a, cid), f in zip(okA, fl):
            if ((f[0] == 1 and f[1] == 1) or (f[4] == 1 and f[1] == 1 and f[5] == 1)) and f[2] != 1:
                ctx.disagreements.append({'interface': 'model(flags)', 'input': {'A': a, 'token_set': xdoc.CFG[cid]},
                                          'model': f, 'impl': 'closed_last_gives_flags(5) says stable_run3 holds'})
    ctx.count('distinct_nontrivial', nontriv)
    ctx.sample({'A': tricky_a[5], 'B': tricky_b[0], 'combined': tricky_a[5] + '\n' + tricky_b[0]})
    designed = [nl(a) + '\n' + b for a in tricky_a for b in tricky_b]
    xdoc.run(ctx, designed + tricky_b + xd, cfgs=(0, 3))


def replay(ctx, obj):
    inp = obj.get('input') or {}
    if isinstance(inp, dict) and 'A' in inp:
        cid = [k for k, v in xdoc.CFG.items() if v == inp['token_set']][0]
        r = worker((inp['A'], inp['B'], cid))
        ctx.count('evaluations')
        if r[0] == 'fail':
            ctx.failing.append({'interface': 'oracle(replay)', 'input': inp, 'what': r[1], 'observed': r[2], 'expected': r[3], 'kf': None})
    else:
        run(ctx)
