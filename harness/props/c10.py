"""C10 — reflowing to a maximum line length preserves meaning and honours the limit."""
import multiprocessing as mp
import random
import re

from harness import core, docgen, inputs, trees

GEN = ['gen_tables']
THEOREMS = ['C10_tree_reflow_normalized', 'C10_tree_reflow_normalized_instance', 'C10_tree_long_lines', 'C10_tree_long_lines_instance', 'C10_tree_reflow', 'C10_tree_reflow_pieces', 'C10_tree_reflow_instance', 'C10_plain_words_reflow', 'C10_plain_words_instance', 'C10_bound', 'C10_words_preserved', 'C10_fill_determined_by_words', 'C10_not_rebroken', 'C10_quote_budget',
            'C10_list_item_budget']
TRUSTED = ['Model/MarkdownRenderer.v: hand-written model of markdown_renderer.py (fragments, make_words, fragments_to_lines, prefix_lines, '
           'block rendering, tables); the whitespace table (\\s / str.isspace) is regenerated from the interpreter every run',
           'the document generator harness/docgen.py and the HTML whitespace normaliser (oracle side)']
ASSUMPTIONS = ['clauses 1 (same meaning after reflow), 3 (a line longer than the limit is its container prefix and one word: C10_tree_long_lines) and 4 (reflowing again changes nothing) are PROVED for every limit on paragraphs of plain words at every nesting '
               'depth of block quotes and lists, with fenced code, ATX headings and thematic breaks between them (C10_tree_reflow, C10_plain_words_reflow; the class is '
               'also run on the implementation and, tree by tree, inside the proof assistant: word_trees, plain_word_paragraphs); for other documents (inline markup, '
               'setext headings, tables, HTML) they are decided by the oracle on the implementation only (PARTIAL)',
               'prose words that could start a block at the beginning of a line are the recorded class kf_wrap_block_marker_word']


def mk_frags(spec):
    from mistletoe.markdown_renderer import Fragment
    out = []
    for text, wrap, hard in spec:
        kw = {}
        if wrap:
            kw['wordwrap'] = True
        if hard:
            kw['hard_line_break'] = True
        out.append(Fragment(text, **kw))
    return out


def wrap_worker(args):
    spec, L = args
    from mistletoe.markdown_renderer import MarkdownRenderer
    try:
        return (list(MarkdownRenderer.make_words(mk_frags(spec))),
                list(MarkdownRenderer.fragments_to_lines(mk_frags(spec), max_line_length=L)))
    except Exception as e:
        return 'EXC %s: %s' % (type(e).__name__, e)


def prefix_worker(args):
    lines, p, q = args
    from mistletoe.markdown_renderer import MarkdownRenderer
    return list(MarkdownRenderer.prefix_lines(lines, p, q))


PIECES = ['a', 'bb', 'ccc', ' ', '  ', '\t', '\n', ' ', '　', 'word', 'longerword', '*', '`', '[', 'x y', ' lead', 'trail ', '']


def gen_frags(rng):
    spec = []
    for _ in range(rng.randint(0, 7)):
        r = rng.random()
        text = ''.join(rng.choice(PIECES) for _ in range(rng.randint(0, 5)))
        if r < 0.55:
            spec.append((text, True, False))
        elif r < 0.7:
            spec.append((text.replace('\n', ' ') + '\n', False, True))
        else:
            spec.append((text, False, False))
    return spec


def html_norm(h):
    parts = re.split(r'(<pre>.*?</pre>)', h, flags=re.S)
    out = []
    for p in parts:
        if p.startswith('<pre>'):
            out.append(p)
        else:
            p = re.sub(r'\s+', ' ', p)
            p = re.sub(r'\s*(</?(?:p|h\d|li|ul|ol|blockquote|table|thead|tbody|tr|th|td|hr|br|pre)\b[^>]*>)\s*', r'\1', p)
            out.append(p.strip())
    return ''.join(out)


def doc_worker(args):
    text, L, norm = args
    from mistletoe import Document
    from mistletoe.html_renderer import HtmlRenderer
    from mistletoe.markdown_renderer import MarkdownRenderer
    res = {}
    try:
        with MarkdownRenderer(max_line_length=L, normalize_whitespace=norm) as r:
            doc = Document(text)
            res['tree'] = trees.dump(doc)
            res['md'] = r.render(doc)
            res['md2'] = r.render(Document(res['md']))
            # blocks that must not be re-broken
            nb = []
            for ch in doc.children:
                if type(ch).__name__ in ('Heading', 'CodeFence', 'BlockCode', 'HtmlBlock', 'Table'):
                    nb.append((type(ch).__name__, r.render_map[type(ch).__name__](ch, max_line_length=L)
                               if type(ch).__name__ != 'Heading' else r.render_heading(ch, max_line_length=L)))
            res['fixed_blocks'] = [(k, list(v)) for k, v in nb]
        with MarkdownRenderer(max_line_length=None, normalize_whitespace=norm) as r:
            doc = Document(text)
            res['md_none'] = r.render(doc)
            res['fixed_blocks_none'] = [(type(ch).__name__, list(r.render_map[type(ch).__name__](ch, max_line_length=None)))
                                        for ch in doc.children if type(ch).__name__ in ('Heading', 'CodeFence', 'BlockCode', 'HtmlBlock', 'Table')]
        with HtmlRenderer() as h:
            res['html'] = h.render(Document(text))
            res['html_md'] = h.render(Document(res['md']))
            res['html_md_none'] = h.render(Document(res['md_none']))
    except Exception as e:
        res['error'] = '%s: %s' % (type(e).__name__, e)
    return res


PREFIX_RE = re.compile(r'^(?:> ?| {1,8}|[-+*] {1,4}|\d{1,9}[.)] {1,4})*')


# ---- the length bound on documents whose every line is prose in containers (clause 3 decided exactly: the words hold no space) ----
BOUND_WORDS = ['Lorem', 'ipsum,', '(dolor)', 'sit', 'amet;', 'verylongwordindeed', 'x', 'Zed.', '"q"', "it's", 'a-b', 'é', '中文', 'alpha', 'beta', 'gamma', 'delta', 'omega']


def gen_bound_block(rng, depth, flush=False):
    """lines of one block: a paragraph, a setext heading, or (depth permitting) a quote / list holding blocks"""
    c = rng.random()
    if depth >= 3 or c < 0.45:
        words = [rng.choice(BOUND_WORDS) for _ in range(rng.randint(1, 18))]
        lines = []
        while words:
            k = rng.randint(1, 8)
            lines.append(' '.join(words[:k]))
            words = words[k:]
        if c < 0.2 or (depth >= 3 and rng.random() < 0.4):
            lines.append(rng.choice(['===', '---', '=', '-----']))
        return lines
    kids = []
    for i in range(rng.randint(1, 3)):
        if i:
            kids.append('')
        # the first block of a list item stands right behind the marker: spaces in front of it would be read as padding of the marker
        kids += gen_bound_block(rng, depth + 1, flush=(i == 0 and c >= 0.7))
    if c < 0.7:
        return ['> ' + l if l else '>' for l in kids]
    marker = rng.choice(['- ', '* ', '+ ', '1. ', '12) ', '-   '])
    ind = '' if flush else ' ' * rng.choice([0, 0, 0, 1, 2, 3])        # the marker itself may be indented by up to three spaces: the budget of the item shrinks by that too
    pad = ind + ' ' * len(marker)
    return [(ind + marker if i == 0 else pad) + l if l else '' for i, l in enumerate(kids)]


def bound_worker(args):
    text, L = args
    from mistletoe import Document
    from mistletoe.html_renderer import HtmlRenderer
    from mistletoe.markdown_renderer import MarkdownRenderer
    try:
        with MarkdownRenderer(max_line_length=L) as r:
            md = r.render(Document(text))
            md2 = r.render(Document(md))
        with HtmlRenderer() as h:
            same = html_norm(h.render(Document(text))) == html_norm(h.render(Document(md)))
    except Exception as e:
        return 'EXC %s: %s' % (type(e).__name__, e)
    bad = []
    for line in md.split('\n'):
        if len(line) > L and ' ' in line[PREFIX_RE.match(line).end():].strip():
            bad.append(('an output line longer than L has a breakable space after its container prefix', line))
    if not same:
        bad.append(('reflowed document does not parse to the same document', md))
    if md2 != md:
        bad.append(('reflowing the output again changes it', md2))
    return bad


PLAIN_WORDS = ['Lorem', 'ipsum,', '(dolor)', 'sit', 'amet;', 'a.b', 'c:d', 'e%f', 'verylongwordindeed', 'x', 'Zed.', '"q"', "it's", 'a-b', 'c+d', 'e=f', 'g#h', 'i>j', 'k/l', '@m', '^n', '}o', 'é', '中文', 'ß—', '«p»']


def plain_words_worker(args):
    """the class of C10_plain_words_reflow on the implementation: same meaning, fixed point, lines are groups of the words"""
    words, L = args
    import html as _html
    import mistletoe
    from mistletoe import Document
    from mistletoe.markdown_renderer import MarkdownRenderer
    text = ' '.join(words) + '\n'
    try:
        with MarkdownRenderer(max_line_length=L) as r:
            out = r.render(Document(text))
            again = r.render(Document(out))
        h1 = mistletoe.markdown(text)
        h2 = mistletoe.markdown(out)
    except Exception as e:
        return 'EXC %s: %s' % (type(e).__name__, e)
    lines = out[:-1].split('\n')
    problems = []
    if ' '.join(lines).split(' ') != words:
        problems.append('the lines are not groups of the words')
    if h1 != '<p>' + _html.escape(' '.join(words), quote=False) + '</p>\n' or h2 != '<p>' + _html.escape('\n'.join(lines), quote=False) + '</p>\n':
        problems.append('the HTML is not the paragraph of the lines')
    if again != out:
        problems.append('reflowing again changes the text')
    return [problems, out, again, h1, h2]


# ---- the class of C10_tree_reflow: trees of quotes and lists whose paragraphs are lines of plain words ----
WT_CODE = ['x = 1', 'print("a b c d e f g h i j k")', '# not a heading', '- not an item', 'y', '  indented by hand']
WT_HEADS = ['next', 'A longer title of several words', 'x', 'Zed. (q)']


def wt_gen(rng, depth):
    """a tree of Proofs/ReflowTree.v's wtree: ('p', lines of words) ('f', ch, n, lines) ('h', lv, text) ('r', c, n) ('q', kids) ('i', marker, pad, kids) ('m', marker, pad, kids, blank, next)"""
    c = rng.random()
    if depth >= 3 or c < 0.4:
        words = [rng.choice(PLAIN_WORDS) for _ in range(rng.randint(1, 16))]
        lines = []
        while words:
            k = rng.randint(1, 7)
            lines.append(words[:k])
            words = words[k:]
        return ('p', lines)
    if c < 0.47:
        return ('f', rng.choice('`~'), rng.randint(3, 5), [rng.choice(WT_CODE) for _ in range(rng.randint(0, 3))])
    if c < 0.53:
        return ('h', rng.randint(1, 6), rng.choice(WT_HEADS))
    if c < 0.57:
        return ('r', rng.choice('-_*'), rng.randint(0, 3))
    if c < 0.78:
        return ('q', wt_kids(rng, depth + 1, None))
    return wt_list(rng, depth, rng.choice(['-', '*', '+', '.', ')']), rng.randint(1, 3))


def wt_first(t):
    return t[1][0][0][0] if t[0] == 'p' else t[1] if t[0] in 'fr' else '#' if t[0] == 'h' else '>' if t[0] == 'q' else t[1][0]


def wt_kids(rng, depth, bullet):
    kids = []
    for _ in range(rng.randint(1, 3)):
        for _try in range(20):
            k = wt_gen(rng, depth)
            if kids and kids[-1][0] in 'im' and k[0] in 'im':
                continue                      # two lists are never neighbours
            if not kids and bullet is not None and wt_first(k) == bullet:
                continue                      # after a bullet the content does not begin with the same bullet
            kids.append(k)
            break
    return kids or [('p', [[rng.choice(PLAIN_WORDS)]])]


def wt_list(rng, depth, key, items):
    number = rng.randint(0, 98)

    def marker(i):
        return key if key in '-*+' else str(number + i) + key
    chain = None
    for i in reversed(range(items)):
        mk, pad = marker(i), rng.randint(1, 4)
        kids = wt_kids(rng, depth + 1, mk if key in '-*+' else None)
        chain = ('i', mk, pad, kids) if chain is None else ('m', mk, pad, kids, rng.random() < 0.5, chain)
    return chain


def wt_spell(t):
    if t[0] == 'p':
        return [' '.join(g) for g in t[1]]
    if t[0] == 'f':
        return [t[1] * t[2]] + list(t[3]) + [t[1] * t[2]]
    if t[0] == 'h':
        return ['#' * t[1] + ' ' + t[2]]
    if t[0] == 'r':
        return [t[1] * (3 + t[2])]
    kids = t[1] if t[0] == 'q' else t[3]
    inner = []
    for i, k in enumerate(kids):
        if i:
            inner.append('')
        inner += wt_spell(k)
    if t[0] == 'q':
        return ['> ' + l for l in inner]
    w = len(t[1]) + t[2]
    item = [t[1] + ' ' * t[2] + inner[0]] + [(' ' * w + l) if l else '' for l in inner[1:]]
    return item + ([''] if t[4] else []) + wt_spell(t[5]) if t[0] == 'm' else item


def wt_reflow(t, L):
    """the tree the renderer must write with limit L, computed here without the library: greedy filling, the budget shrunk by every container"""
    if t[0] == 'p':
        lines, cur = [], []
        for w in [w for g in t[1] for w in g]:
            if cur and len(' '.join(cur)) + 1 + len(w) > L:
                lines.append(cur)
                cur = [w]
            else:
                cur = cur + [w]
        return ('p', lines + [cur])
    if t[0] == 'q':
        return ('q', [wt_reflow(k, L - 2) for k in t[1]])
    if t[0] == 'i':
        return ('i', t[1], t[2], [wt_reflow(k, L - len(t[1]) - t[2]) for k in t[3]])
    if t[0] == 'm':
        return ('m', t[1], t[2], [wt_reflow(k, L - len(t[1]) - t[2]) for k in t[3]], t[4], wt_reflow(t[5], L))
    return t


def wt_norm(t):
    """normalize_whitespace=True: every list marker is followed by one space"""
    if t[0] == 'q':
        return ('q', [wt_norm(k) for k in t[1]])
    if t[0] == 'i':
        return ('i', t[1], 1, [wt_norm(k) for k in t[3]])
    if t[0] == 'm':
        return ('m', t[1], 1, [wt_norm(k) for k in t[3]], t[4], wt_norm(t[5]))
    return t


def _wzl(x):
    return '[' + '; '.join(str(ord(c)) for c in x) + ']'


def wt_gallina(t):
    def mk(m):
        return '(MBullet %d)' % ord(m) if m in '-*+' else '(MOrdered %s %d)' % (_wzl(m[:-1]), ord(m[-1]))
    if t[0] == 'p':
        return '(WPara [%s])' % '; '.join('[%s]' % '; '.join(_wzl(w) for w in g) for g in t[1])
    if t[0] == 'f':
        def sl(l):
            k = len(l) - len(l.lstrip(' '))
            return '(SLine %d %d %s)' % (k, ord(l[k]), _wzl(l[k + 1:]))
        return '(WFence %d %d [%s])' % (ord(t[1]), t[2], '; '.join(sl(l) for l in t[3]))
    if t[0] == 'h':
        return '(WHead %d %d %s)' % (t[1], ord(t[2][0]), _wzl(t[2][1:]))
    if t[0] == 'r':
        return '(WRule %d %d)' % (ord(t[1]), t[2])
    if t[0] == 'q':
        return '(WQuote [%s])' % '; '.join(wt_gallina(k) for k in t[1])
    if t[0] == 'i':
        return '(WItem %s %d [%s])' % (mk(t[1]), t[2], '; '.join(wt_gallina(k) for k in t[3]))
    return '(WMore %s %d [%s] %s %s)' % (mk(t[1]), t[2], '; '.join(wt_gallina(k) for k in t[3]), 'true' if t[4] else 'false', wt_gallina(t[5]))


def wt_worker(args):
    """the class of C10_tree_reflow on the implementation: what the renderer writes with the limit, its meaning, and the fixed point"""
    text, L = args
    import mistletoe
    from mistletoe import Document
    from mistletoe.markdown_renderer import MarkdownRenderer
    try:
        with MarkdownRenderer(max_line_length=L) as r:
            out = r.render(Document(text))
            again = r.render(Document(out))
        with MarkdownRenderer(max_line_length=L, normalize_whitespace=True) as r:
            nout = r.render(Document(text))
        with MarkdownRenderer(normalize_whitespace=True) as r:
            n0 = r.render(Document(text))
            n1 = r.render(Document(n0))
        return [out, again, mistletoe.markdown(text), mistletoe.markdown(out), nout, mistletoe.markdown(nout), n0, n1, mistletoe.markdown(n0)]
    except Exception as e:
        return 'EXC %s: %s' % (type(e).__name__, e)


def _wt_shard(arg):
    import os
    k, cases = arg
    d = os.path.join(core.ROOT, 'coq', 'cases')
    os.makedirs(d, exist_ok=True)
    path = os.path.join(d, 'C10Cases%d.v' % k)
    with open(path, 'w') as f:
        f.write('From Coq Require Import ZArith List Bool.\nFrom Mistletoe Require Import Base.Sx Base.PyStr Base.PyText Proofs.ListLaw Spec.Fragment Proofs.FragmentP Proofs.ReflowTree.\n'
                'Import ListNotations.\nOpen Scope Z_scope.\nDefinition cs : list (wtree * Z) := [\n  %s].\n'
                'Eval vm_compute in map (fun c => (wwf (fst c), concat (text_of (spell (to_f (fst c)))), concat (text_of (spell (to_f (reflow (snd c) (fst c))))) ++ [0] ++ concat (text_of (spell (to_f (reflow (snd c) (norm (fst c)))))))) cs.\n'
                % ';\n  '.join('(%s, %d)' % (wt_gallina(t), L) for t, L in cases))
    rc, out = core.sh(['coqc', '-Q', 'theories', 'Mistletoe', path], timeout=900, cwd=os.path.join(core.ROOT, 'coq'))
    for junk in [path[:-2] + ext for ext in ('.vo', '.vok', '.vos', '.glob', '.v')] + [os.path.join(d, '.C10Cases%d.aux' % k)]:
        try:
            os.remove(junk)
        except OSError:
            pass
    if rc != 0 or '=' not in out:
        return None, out[-400:]
    body = out.split('=', 1)[1].rsplit(': list', 1)[0]
    res = []
    for m in re.finditer(r'\(\s*(true|false),\s*\[([^\]]*)\],\s*\[([^\]]*)\]\)', body):
        res.append((m.group(1) == 'true', ''.join(chr(int(x)) for x in re.findall(r'-?\d+', m.group(2))), ''.join(chr(int(x)) for x in re.findall(r'-?\d+', m.group(3)))))
    return (res, '') if len(res) == len(cases) else (None, 'unreadable output: ' + out[-300:])


def model_word_trees(cases):
    """inside the proof assistant: the hypothesis wwf, the text the model spells for the tree and the text of reflow L t - (wwf, source, reflowed) per case"""
    from concurrent.futures import ThreadPoolExecutor
    shards = [(k, cases[i:i + 25]) for k, i in enumerate(range(0, len(cases), 25))]
    with ThreadPoolExecutor(max_workers=core.NPROC) as ex:
        parts = list(ex.map(_wt_shard, shards))
    out = []
    for res, err in parts:
        if res is None:
            return None, err
        out += res
    return out, ''


def run(ctx, only=None):
    ctx.cov['rule'] = ('X-wrap: synthetic Fragment lists through the real make_words / fragments_to_lines for L in 1..120 and None; X-md: parsed trees x L x '
                       'normalize_whitespace; oracle: generated documents x L; non-trivial = the fragment list yields at least three words / the document '
                       'has a paragraph longer than L; distinct = distinct (input, L)')
    rng = random.Random(ctx.seed)
    # ---- X-wrap
    nw = 30000 if ctx.quick() else 500000
    jobs = []
    for _ in range(nw):
        jobs.append((gen_frags(rng), rng.choice([None, None, 0, 1, 2, 3, 5, 8, 10, 13, 20, 40, 80, 120, rng.randint(1, 120)])))
    with mp.Pool(core.NPROC) as pool:
        wres = pool.map(wrap_worker, jobs, chunksize=1000)
    nontriv = set()
    if ctx.driver_ok:
        mres = core.model_map([[10, [] if L is None else [L], [[t, w, h] for (t, w, h) in spec]] for spec, L in jobs])
        for (spec, L), w, m in zip(jobs, wres, mres):
            ctx.count('evaluations')
            ctx.count('wrap_cases')
            if isinstance(w, str):
                ctx.failing.append({'interface': 'X-wrap', 'input': {'fragments': spec, 'L': L}, 'what': 'wrapping raised ' + w, 'kf': None})
                continue
            mw = [core.dstr(x) for x in m[0]]
            ml = [core.dstr(x) for x in m[1]]
            if mw != w[0] or ml != w[1]:
                ctx.disagreements.append({'interface': 'X-wrap', 'input': {'fragments(text,wordwrap,hard_line_break)': spec, 'L': L},
                                          'model': [mw, ml], 'impl': w})
            if len(w[0]) >= 3:
                nontriv.add(repr((spec, L)))
            # clause 3 at the core: a line longer than L is a single word
            if L is not None and L > 0:
                words = set(w[0])
                for line in w[1]:
                    if len(line) > L and line not in words:
                        ctx.failing.append({'interface': 'oracle(bound)', 'input': {'fragments': spec, 'L': L},
                                            'what': 'a line longer than L is not a single unbreakable word', 'observed': line, 'kf': None})
    ctx.sample({'stream': 'X-wrap', 'fragments(text,wordwrap,hard_line_break)': jobs[3][0], 'L': jobs[3][1], 'impl(words,lines)': wres[3]})
    # ---- prefix_lines
    pj = []
    for _ in range(4000 if ctx.quick() else 50000):
        lines = [''.join(rng.choice(PIECES) for _ in range(rng.randint(0, 3))).replace('\n', '') for _ in range(rng.randint(0, 4))]
        pj.append((lines, rng.choice(['> ', '    ', '- ', '', '  1. ', ' ']), rng.choice([None, None, '', '  ', '   '])))
    with mp.Pool(core.NPROC) as pool:
        pres = pool.map(prefix_worker, pj, chunksize=500)
    if ctx.driver_ok:
        mres = core.model_map([[101, lines, p, [] if q is None else [q]] for lines, p, q in pj])
        for j, a, m in zip(pj, pres, mres):
            ctx.count('evaluations')
            if [core.dstr(x) for x in m] != a:
                ctx.disagreements.append({'interface': 'X-prefix', 'input': j, 'model': [core.dstr(x) for x in m], 'impl': a})
    # ---- documents
    nd = 2500 if ctx.quick() else 40000
    docs = []
    for i in range(nd):
        plain = (i % 3 == 1)
        text, _ch = docgen.gen_doc(rng, marker_words=(i % 10 == 0), code=not plain, tables=not plain, html=not plain)
        docs.append((text, rng.choice([1, 2, 3, 5, 8, 12, 20, 30, 40, 60, 80, 120, rng.randint(1, 120)]), rng.random() < 0.5, i % 10 == 0))
    for t in inputs.spec_texts()[::3]:
        docs.append((t, rng.choice([5, 20, 40]), False, None))
    with mp.Pool(core.NPROC) as pool:
        dres = pool.map(doc_worker, [(t, L, n) for (t, L, n, _m) in docs], chunksize=20)
    reqs, meta = [], []
    for (text, L, norm, marker), r in zip(docs, dres):
        ctx.count('evaluations')
        ctx.count('documents')
        if 'error' in r:
            ctx.count('impl_exceptions')
            continue
        reqs.append([9, norm, [L], r['tree']])
        meta.append((text, L, norm, r['md']))
        reqs.append([9, norm, [], r['tree']])
        meta.append((text, None, norm, r['md_none']))
        if marker is None:
            continue      # spec texts: correspondence only
        inp = {'text': text, 'L': L, 'normalize_whitespace': norm}
        kf_marker = 'kf_wrap_block_marker_word' if marker else None
        if max((len(x) for x in text.split('\n')), default=0) > L:
            nontriv.add((text, L, norm))
        if r['fixed_blocks'] != r['fixed_blocks_none']:
            ctx.failing.append({'interface': 'oracle(not re-broken)', 'input': inp, 'what': 'a code block / HTML block / table / ATX heading was re-broken',
                                'observed': r['fixed_blocks'], 'expected': r['fixed_blocks_none'], 'kf': None})
        if html_norm(r['html']) != html_norm(r['html_md_none']):
            # the round trip WITHOUT a line limit already changes this document: that is C09's business
            # (its recorded findings), not an effect of reflowing
            ctx.count('documents_set_aside_roundtrip_changes_without_limit')
            continue
        if html_norm(r['html']) != html_norm(r['html_md']):
            ctx.failing.append({'interface': 'oracle(meaning)', 'input': inp, 'what': 'reflowed document does not parse to the same document',
                                'observed': r['html_md'], 'expected': r['html'], 'kf': kf_marker or classify_meaning(text, r)})
            continue
        if r['md2'] != r['md']:
            ctx.failing.append({'interface': 'oracle(idempotent)', 'input': inp, 'what': 'reflowing the output again changes it',
                                'observed': r['md2'], 'expected': r['md'], 'kf': kf_marker})
        for line in r['md'].split('\n'):
            if len(line) > L:
                rest = line[PREFIX_RE.match(line).end():]
                if ' ' in rest.strip() and not any(c in rest for c in '`(<[|#') and not any(m in text for m in ('```', '~~~', '    ', '|', '<')):
                    ctx.failing.append({'interface': 'oracle(bound)', 'input': inp, 'what': 'an output line longer than L has a breakable space',
                                        'observed': line, 'kf': None})
    if ctx.driver_ok:
        mres = core.model_map(reqs)
        for (text, L, norm, md), m in zip(meta, mres):
            if core.dstr(m) != md:
                ctx.disagreements.append({'interface': 'X-md', 'input': {'text': text, 'L': L, 'normalize_whitespace': norm},
                                          'model': core.dstr(m), 'impl': md})
    # ---- the class of the unbounded theorem (paragraphs of plain words x every limit), on the implementation
    pw = []
    for _ in range(3000 if ctx.quick() else 60000):
        pw.append(([rng.choice(PLAIN_WORDS) for _ in range(rng.randint(1, 25))], rng.randint(1, 120)))
    with mp.Pool(core.NPROC) as pool:
        pres = pool.map(plain_words_worker, pw, chunksize=200)
    for (words, L), r in zip(pw, pres):
        ctx.count('evaluations')
        ctx.count('plain_word_paragraphs')
        if isinstance(r, str) or r[0]:
            ctx.failing.append({'interface': 'oracle(plain words)', 'input': {'text': ' '.join(words) + '\n', 'L': L},
                                'what': r if isinstance(r, str) else '; '.join(r[0]), 'observed': None if isinstance(r, str) else r[1:], 'kf': None})
    # ---- the class of C10_tree_reflow (word paragraphs at every depth of quotes and lists x every limit): the implementation against the reflowed tree
    #      written here without the library, and against the model's reflow evaluated inside the proof assistant
    wj = []
    for _ in range(1500 if ctx.quick() else 30000):
        kids = wt_kids(rng, 0, None)
        t = ('q', kids) if rng.random() < 0.5 else wt_list(rng, 0, rng.choice(['-', '*', '+', '.', ')']), rng.randint(1, 3))
        wj.append((t, rng.choice([1, 4, 8, 12, 16, 20, 25, 30, 40, 60, 80, rng.randint(1, 100)])))
    with mp.Pool(core.NPROC) as pool:
        wres = pool.map(wt_worker, [('\n'.join(wt_spell(t)) + '\n', L) for t, L in wj], chunksize=100)
    unl = lambda h: h.replace('\n', ' ')
    for (t, L), r in zip(wj, wres):
        ctx.count('evaluations')
        ctx.count('word_trees')
        src = '\n'.join(wt_spell(t)) + '\n'
        want = '\n'.join(wt_spell(wt_reflow(t, L))) + '\n'
        inp = {'text': src, 'L': L}
        if want != src:
            ctx.count('word_trees_changed_by_the_limit')
        if isinstance(r, str):
            ctx.failing.append({'interface': 'oracle(word trees)', 'input': inp, 'what': 'rendering raised ' + r, 'kf': None})
        elif r[0] != want:
            ctx.failing.append({'interface': 'oracle(word trees)', 'input': inp, 'what': 'the reflowed text is not the tree with the words of each paragraph regrouped under its budget',
                                'observed': r[0], 'expected': want, 'kf': None})
        elif unl(r[2]) != unl(r[3]):
            ctx.failing.append({'interface': 'oracle(word trees)', 'input': inp, 'what': 'the HTML of the reflowed text differs from the original by more than line endings',
                                'observed': r[3], 'expected': r[2], 'kf': None})
        elif r[1] != r[0]:
            ctx.failing.append({'interface': 'oracle(word trees)', 'input': inp, 'what': 'reflowing the reflowed text again changes it', 'observed': r[1], 'expected': r[0], 'kf': None})
        else:
            nwant = '\n'.join(wt_spell(wt_reflow(wt_norm(t), L))) + '\n'
            ninp = {'text': src, 'L': L, 'normalize_whitespace': True}
            if r[4] != nwant:
                ctx.failing.append({'interface': 'oracle(word trees)', 'input': ninp, 'what': 'with normalize_whitespace the reflowed text is not the tree with one space after every marker, its paragraphs regrouped under their budgets',
                                    'observed': r[4], 'expected': nwant, 'kf': None})
            elif r[6] != '\n'.join(wt_spell(wt_norm(t))) + '\n' or r[7] != r[6] or r[8] != r[2]:
                ctx.failing.append({'interface': 'oracle(word trees)', 'input': {'text': src, 'normalize_whitespace': True},
                                    'what': 'with normalize_whitespace and no limit the text is not the tree with one space after every marker, or rendering it again changes it, or its HTML differs (C09_normalize_whitespace_round_trip)',
                                    'observed': [r[6], r[7], r[8]], 'expected': ['\n'.join(wt_spell(wt_norm(t))) + '\n', r[2]], 'kf': None})
            elif unl(r[2]) != unl(r[5]):
                ctx.failing.append({'interface': 'oracle(word trees)', 'input': ninp, 'what': 'the HTML of the normalized, reflowed text differs from the original by more than line endings',
                                    'observed': r[5], 'expected': r[2], 'kf': None})
    nm = 100 if ctx.quick() else 1000
    mres, err = model_word_trees(wj[:nm])
    if mres is None:
        ctx.disagreements.append({'interface': 'X-hyp(word trees)', 'input': None, 'model': 'the cases file did not evaluate: ' + err, 'impl': None})
    else:
        for (t, L), (ok, msrc, mout) in zip(wj[:nm], mres):
            ctx.count('evaluations')
            ctx.count('word_trees_evaluated_in_the_model')
            src = '\n'.join(wt_spell(t)) + '\n'
            want = '\n'.join(wt_spell(wt_reflow(t, L))) + '\n'
            nwant = '\n'.join(wt_spell(wt_reflow(wt_norm(t), L))) + '\n'
            want = want + '\x00' + nwant        # the model's two texts come back joined by a NUL
            if not ok or msrc != src or mout != want:
                ctx.disagreements.append({'interface': 'X-hyp(word trees)', 'input': {'text': src, 'L': L, 'tree': wt_gallina(t)},
                                          'model': {'wwf': ok, 'source': msrc, 'reflowed': mout}, 'impl': {'source': src, 'reflowed': want}})
    # ---- clause 3 decided exactly: prose and setext headings nested in quotes and lists, words without spaces, every limit
    bj = []
    for _ in range(4000 if ctx.quick() else 80000):
        blocks = []
        for i in range(rng.randint(1, 3)):
            if i:
                blocks.append('')
            blocks += gen_bound_block(rng, 0)
        bj.append(('\n'.join(blocks) + '\n', rng.choice([1, 3, 5, 8, 12, 16, 20, 25, 30, 40, 60, 80, rng.randint(1, 120)])))
    with mp.Pool(core.NPROC) as pool:
        bres = pool.map(bound_worker, bj, chunksize=100)
    for (text, L), r in zip(bj, bres):
        ctx.count('evaluations')
        ctx.count('prose_in_containers_documents')
        if isinstance(r, str):
            ctx.count('impl_exceptions')
            continue
        for what, obs in r[:1]:
            ctx.failing.append({'interface': 'oracle(prose in containers)', 'input': {'text': text, 'L': L}, 'what': what, 'observed': obs, 'kf': None})
    ctx.count('distinct_nontrivial', len(nontriv))
    ctx.sample({'stream': 'documents', 'text': docs[1][0], 'L': docs[1][1], 'md': dres[1].get('md')})


def classify_meaning(text, r):
    return None


def replay(ctx, obj):
    run(ctx)
