"""C18 — HTML-based contrib renderers conservatively extend the HTML renderer."""
import multiprocessing as mp
import random
import re

from harness import core, inputs, trees

GEN = ['gen_escapes', 'gen_dispatch', 'gen_regex']
THEOREMS = ['C18_dispatch', 'C18_options_forwarded', 'C18_render', 'C18_toc_any_tree', 'C18_mathjax_document', 'C18_parse', 'C18_math_needs_dollar',
            'C18_wiki_needs_brackets_and_bar']
TRUSTED = ['harness/gen/gen_dispatch.py reads the method-resolution order of the live classes (inspect) and the constructors (ast)',
           'Model/Contrib.v: hand-written model of the four overrides (render_heading, render_document, render_math, render_block_code); '
           'Pygments highlight is a parameter of the model (supplied from the real library in the correspondence run)',
           'the HTML model of C08']
ASSUMPTIONS = ['side conditions as in the property: GithubWiki - no [[..|..]] in the text; MathJax - no $ in the text; Pygments - no code block',
               'that a pattern cannot match without its trigger character is checked on the implementation only (no regex theorem yet)']

KINDS = {'toc': 1, 'wiki': 2, 'mathjax': 3, 'pygments': 4}
WIKI_RE = re.compile(r'\[\[.*\|.*\]\]', re.S)


def get_classes():
    from mistletoe.contrib.toc_renderer import TocRenderer
    from mistletoe.contrib.github_wiki import GithubWikiRenderer
    from mistletoe.contrib.mathjax import MathJaxRenderer
    from mistletoe.contrib.pygments_renderer import PygmentsRenderer
    return {'toc': TocRenderer, 'wiki': GithubWikiRenderer, 'mathjax': MathJaxRenderer, 'pygments': PygmentsRenderer}


def code_blocks(t, acc):
    if type(t).__name__ in ('BlockCode', 'CodeFence'):
        acc.append(t)
    if type(t).__name__ == 'Table' and 'header' in vars(t):
        code_blocks(t.header, acc)
    for c in (t.children or ()):
        code_blocks(c, acc)
    return acc


def worker(args):
    text, dq, sq, pht = args
    from mistletoe import Document
    from mistletoe.html_renderer import HtmlRenderer
    kw = dict(html_escape_double_quotes=dq, html_escape_single_quotes=sq, process_html_tokens=pht)
    res = {}
    try:
        with HtmlRenderer(**kw) as r:
            doc = Document(text)
            res['html'] = r.render(doc)
            res['has_code'] = bool(code_blocks(doc, []))
    except Exception as e:
        return {'error': 'HtmlRenderer raised %s: %s' % (type(e).__name__, e)}
    for name, cls in get_classes().items():
        try:
            with cls(**kw) as r:
                doc = Document(text)
                out = r.render(doc)
                hl = []
                if name == 'pygments':
                    for b in code_blocks(doc, []):
                        hl.append([b.language, b.content, r.render_block_code(b)])
                try:
                    w = trees.dump(doc)
                except trees.DumpError:
                    w = None
            res[name] = (out, w, hl)
        except Exception as e:
            res[name] = ('%s: %s' % (type(e).__name__, e), None, None)
    return res


def run(ctx, only=None):
    ctx.cov['rule'] = ('texts x random HTML option sets rendered by HtmlRenderer and the four contrib renderers; non-trivial = the text meets '
                       'the side condition of at least one contrib renderer and is longer than 10 characters; distinct = distinct (text, options)')
    rng = random.Random(ctx.seed)
    n = 4000 if ctx.quick() else 60000
    texts = inputs.mixed_stream(rng, n) + [inputs.hostile_doc(rng) for _ in range(n // 2)]
    texts += ['# a\n\n[[x|y]]\n\n$z$\n\n```py\nprint(1)\n```\n', '$$a$$ $b$', '    code\n', '[[a|b]]']
    if only is not None:
        texts = only
    jobs = [(t, rng.random() < 0.5, rng.random() < 0.5, rng.random() < 0.7) for t in texts]
    with mp.Pool(core.NPROC) as pool:
        results = pool.map(worker, jobs, chunksize=50)
    reqs, meta = [], []
    nontriv = set()
    for (text, dq, sq, pht), res in zip(jobs, results):
        ctx.count('evaluations')
        if 'error' in res:
            ctx.count('impl_exceptions')
            continue
        side = {'toc': True, 'wiki': WIKI_RE.search(text) is None, 'mathjax': '$' not in text, 'pygments': not res['has_code']}
        if any(side.values()) and len(text) > 10:
            nontriv.add((text, dq, sq, pht))
        for name, k in KINDS.items():
            out, w, hl = res[name]
            if w is None and hl is None:
                # the contrib renderer raised where HtmlRenderer did not
                if side[name]:
                    ctx.failing.append({'interface': 'oracle', 'input': {'text': text, 'renderer': name, 'opts': [dq, sq, pht]},
                                        'what': '%s raised (%s) on a document that does not use its extension' % (name, out), 'kf': None})
                continue
            ctx.count('renders_' + name)
            expected = res['html'] + (get_src() if name == 'mathjax' else '')
            if side[name]:
                ctx.count('side_condition_met_' + name)
                if out != expected:
                    ctx.failing.append({'interface': 'oracle', 'input': {'text': text, 'renderer': name, 'opts(dq,sq,process_html)': [dq, sq, pht]},
                                        'what': '%s output differs from HtmlRenderer output on a document without its extension' % name,
                                        'observed': out, 'expected': expected, 'kf': None})
            if w is not None:
                reqs.append([18, k, dq, sq, w, hl])
                meta.append((text, name, (dq, sq, pht), out))
    if ctx.driver_ok:
        mres = core.model_map(reqs)
        for (text, name, o, out), m in zip(meta, mres):
            if core.dstr(m) != out:
                ctx.disagreements.append({'interface': 'X-contrib', 'input': {'text': text, 'renderer': name, 'opts': o},
                                          'model': core.dstr(m), 'impl': out})
    ctx.count('distinct_nontrivial', len(nontriv))
    ctx.sample({'text': texts[0], 'renderers': list(KINDS), 'html': results[0].get('html')})
    ctx.sample({'text': texts[-4], 'mathjax': results[-4].get('mathjax', [None])[0]})


_src = None


def get_src():
    global _src
    if _src is None:
        _src = get_classes()['mathjax'].mathjax_src
    return _src


def replay(ctx, obj):
    inp = obj['input']
    if 'text' in inp:
        run(ctx, only=[inp['text']] * 8)
    else:
        run(ctx)
