"""C14 — ordinary prose passes through unchanged."""
import html
import os
import multiprocessing as mp
import random
import re

from harness import core, xdoc

GEN = ['gen_tables', 'gen_regex', 'gen_config', 'gen_escapes', 'gen_core', 'gen_blockstart']
THEOREMS = ['C14_literal_backslash', 'C14_literal_backslash_hypotheses', 'C14_block_starts_are_the_source', 'C14_closer_is_the_source', 'C14_inert_delimiters_pass_through', 'C14_inert_delimiters_decidable', 'C14_scanner_finds_nothing', 'C14_inert_hypotheses_hold', 'C14_prose_paragraph_passes_through', 'C14_prose_paragraph_parses', 'C14_prose_hypotheses_hold', 'C14_plain_line_passes_through', 'C14_plain_line_parses', 'C14_plain_hypotheses_hold', 'C14_bounded_prose', 'C14_block_starts_need_their_marker', 'C14_inert_predicate_is_not_vacuous']
TRUSTED = ['the inertness predicate (harness/props/c14.py:inert, written from the CommonMark 0.30 / GFM block-start and inline rules, conservative: '
           'when in doubt a paragraph is skipped) and its Coq twin Proofs/Prose.v:inert_text used by the kernel sweep',
           'the parser and HTML renderer models (tied by X-doc and X-html on the same paragraphs)',
           'vm_compute for the bounded sweep']
ASSUMPTIONS = ['unbounded theorem for paragraphs of any number of lines with delimiter characters in inert positions (C14_inert_delimiters_pass_through): no backslash or backtick, no & or no ; , no ]( , no run of * or _ that can close emphasis, each regex span token lacks a character it needs; the class is generated from words such as * ** _ snake_case [ ![ ] [x] f(x)[i] < 2 * 3 *open, decided by an independent flanking predicate (harness), run on the implementation (inert_delimiter_paragraphs), and the theorem\'s computable hypotheses are evaluated in the proof assistant on a sample (..._with_hypotheses_checked_in_the_model)',
               'unbounded theorem for paragraphs of any number of trigger-free lines (C14_prose_paragraph_passes_through): first line plain, continuation lines plain and not beginning with = or a list-item marker character; the same class is run on the implementation (plain_paragraphs_of_several_lines)',
               'unbounded theorem (whole pipeline model): a line free of the 14 trigger characters \\ * _ [ ] ! ` ~ < newline $ & { | that begins with a non-marker character '
               'and does not end in white space renders as <p>escaped text</p>, for every modelled token configuration; the random plain-line stream ties '
               'that class to the implementation',
               'PARTIAL for paragraphs in which trigger characters occur in inert positions: kernel-checked for every paragraph of up to 2 lines x up to 2 tokens (and single lines of 3 tokens) over a 16-token vocabulary that '
               'passes the Coq inertness predicate; the ~120-token vocabulary and 1-4 lines are covered on the implementation by the oracle, the model tied by X-doc',
               'unbounded lemma proved: a line that does not begin with the marker character of a block kind cannot start that kind (first-character analysis '
               'of the regenerated patterns): #, >, `, ~, -, +, *, _, digits, <, [, | and space are the only characters that can begin a non-paragraph block',
               'texts with "~~" are skipped (GFM strikethrough flanking is not part of CommonMark 0.30); backticks, backslashes, tabs and non-ASCII spaces are '
               'not in the vocabulary']

VOCAB = ['word', 'snake_case', 'a_b_c', 'x_1', 'mid_dle', 'CamelCase', 'e.g.', 'i.e.', 'etc.', 'and', 'the', 'of', 'a', 'I',
         '*', '-', '+', '#', '>', '=', '|', '~', '^', '$', '%', '@', '**', '--', '++', '##', '>>', '==', '||', '^^', '$$', '%%', '@@', '=>', '->', '<-', '<=', '>=', '!=',
         '[', ']', '(', ')', '{', '}', '[x', 'x]', '(x', 'x)', 'f(x)', 'a[1', ']x[', ')(', '!', '![', '!x', '?', '.', ',', ';', ':', '...', "'", '"', '"q"', "it's",
         '&', '&&', 'AT&T', '&amp', '&copy', '&#', '&#x', '&;', '&#;', 'a&b', '<', '< b', 'a <', '1 < 2', '3>2',
         '1', '12', '2.5', '3.14', '1.a', '1)x', '(1)', '1.', '1)', '2.', '7)', '10.', '0.', '1234567890.', '1234567890)', '-1', '+1', '#1', '#hashtag', '####### seven',
         'C#', 'a#b', 'x-y', 'x+y', 'a=b', 'a|b', 'a~b', 'a^b', '$5', '5%', 'me@x.y', 'http://x.y/z?q=1&r=2', 'www.x.y', 'x.y', '/path/to', '~/home',
         '. x', ') x', '.)', '-x', '+x', '#x', '=x', 'x>', '|x', 'x|', ':-', '-:', '--x', 'x - -', '_', '__', 'a*b', '*x', 'x*', '_x', 'x_', '`',
         'C:\\2024\\reports', 'a\\1b', 'room\\7', 'dir\\sub', 'x\\ y', '\\d', '\\é', 'build\\3.11',
         'tmp_dir_', '_lead', 'trail_', '2*3', 'a_b_', '_c_d', 'f(*args)', '(_x)', 'x_)', '*.py', 'foo*', '**kw', 'end**']
VOCAB = sorted(set(VOCAB))

ENTITY = re.compile(r'&(#[0-9]{1,7}|#[xX][0-9a-fA-F]{1,6}|[A-Za-z][A-Za-z0-9]{0,31});')
DELIM_ROW = re.compile(r'^[\s|:\-]*-[\s|:\-]*$')


def line_starts_block(line, first):
    """spec-derived, conservative: could this line (no leading spaces) begin a block other than a paragraph / continue as one?"""
    if re.match(r'#{1,6}( |$)', line):
        return 'atx heading'
    if line.startswith('>'):
        return 'block quote'
    if re.match(r'(?:([-_*]) *)(?:\1 *){2,}$', line):
        return 'thematic break'
    if re.match(r'[-+*]( |$)', line):
        return 'bullet list'
    m = re.match(r'(\d{1,9})[.)]( |$)', line)
    if m and (first or int(m.group(1)) == 1 or m.group(2) == ''):
        return 'ordered list'
    if line.startswith('```') or line.startswith('~~~'):
        return 'fence'
    if not first and re.match(r'(=+|-+) *$', line):
        return 'setext underline'
    if line.startswith('<'):
        return 'html block'
    if line.startswith('['):
        return 'link reference definition'
    if DELIM_ROW.match(line):
        return 'table delimiter row'
    return None


def inert(lines):
    for i, l in enumerate(lines):
        if l != l.strip() or not l or '  ' in l:
            return False
        if line_starts_block(l, i == 0):
            return False
    text = '\n'.join(lines)
    if any(c in text for c in '`\t') or '~~' in text:
        return False
    # a backslash means something only before an ASCII punctuation character (an escape) or at the end of a line (a hard break):
    # CommonMark 2.4, 'Backslashes before other characters are treated as literal backslashes'
    import string as _string
    for m in re.finditer(r'\\(.?)', text, flags=re.S):
        if m.group(1) == '' or m.group(1) == '\n' or m.group(1) in _string.punctuation:
            return False
    if ENTITY.search(text):
        return False
    if re.search(r'<[A-Za-z/!?]', text):
        return False
    if '[' in text and ']' in text[text.index('['):]:
        return False
    # emphasis needs a delimiter run that can open and a LATER run of the same character that can close (spec 6.2: left-/right-flanking;
    # for _ the intraword restrictions); a paragraph with no such pair has no emphasis
    import string
    for ch in '*_':
        runs = []
        for m in re.finditer(re.escape(ch) + '+', text):
            prev = text[m.start() - 1] if m.start() > 0 else ' '
            nxt = text[m.end()] if m.end() < len(text) else ' '
            if not (prev.isascii() and nxt.isascii()):
                return False
            ws_p, ws_n = prev.isspace(), nxt.isspace()
            pu_p, pu_n = prev in string.punctuation, nxt in string.punctuation
            left = not ws_n and (not pu_n or ws_p or pu_p)
            right = not ws_p and (not pu_p or ws_n or pu_n)
            if ch == '*':
                runs.append((left, right))
            else:
                runs.append((left and (not right or pu_p), right and (not left or pu_n)))
        opened = False
        for can_open, can_close in runs:
            if can_close and opened:
                return False
            opened = opened or can_open
    return True


def gen_paragraph(rng):
    lines = []
    for _ in range(rng.randint(1, 4)):
        lines.append(' '.join(rng.choice(VOCAB) for _ in range(rng.randint(1, 6))))
    return lines


def norm(s):
    return s.replace('&quot;', '"').replace('&#x27;', "'").replace('&#39;', "'")


def worker(lines):
    import mistletoe
    from mistletoe.html_renderer import HtmlRenderer
    text = '\n'.join(lines)
    want = '<p>' + html.escape(text, quote=False) + '</p>\n'
    out = []
    for form in (text, text + '\n'):
        try:
            with HtmlRenderer() as r:
                got = r.render(mistletoe.Document(form))
        except Exception as e:
            got = 'EXC %s: %s' % (type(e).__name__, e)
        if norm(got) != norm(want):
            out.append((form, got, want))
    return out


def plain_worker(l):
    """one plain line, or a list of plain lines (one paragraph)"""
    import mistletoe
    from mistletoe.html_renderer import HtmlRenderer
    lines = [l] if isinstance(l, str) else l
    try:
        with HtmlRenderer() as r:
            return r.render(mistletoe.Document([x + '\n' for x in lines]))
    except Exception as e:
        return 'EXC %s: %s' % (type(e).__name__, e)


# ---- the class of C14_inert_delimiters_pass_through, decided independently of the model (ASCII plus a few letters) ----
INERT_WORDS = ['a', 'word', 'snake_case', 'x_1_y', 'é', '中', '*', '**', '***', '_', '__', '*open', '**open', '_open', '__open', '[', '![', ']', '[x]', '![y]', 'f(x)[i]',
               '<', '2 * 3', 'a_b', '(', ')', '"q"', "it's", 'e.g.', '50%', '@you', '#tag', 'x = y', '[1]', '[^n]', '] [', '!', '!x', 'a*', 'b_', '*em*', '_em_', 'p**', 'x](y', '[z](w)', '>',
               '(*', '*)', '_)', '(_', '.*', '*.', 'end.', 'AT&T', '&', '&&', 'a&b', '&amp', ',', ';', ':', '?', '+', '-', '=', '1.', '2)', '^', '%', '@', '/', '}']
INERT_FIRST = set('abcdefghijklmnopqrstuvwxyzABCDEFGHIJKLMNOPQRSTUVWXYZé中("\'.,;:?)%@^/}')


def _ws(c):
    return c is None or c in ' \t\n\r\x0b\x0c'


def _punct(c):
    return c is not None and c in '!"#$%&\'()*+,-./:;<=>?@[\\]^_`{|}~'


def run_is_closer(s, a, b):
    prev = s[a - 1] if a > 0 else None
    nxt = s[b] if b < len(s) else None
    right = (not _ws(prev)) and ((not _punct(prev)) or _ws(nxt) or _punct(nxt))
    left = (not _ws(nxt)) and ((not _punct(nxt)) or _ws(prev) or _punct(prev))
    if s[a] == '*':
        return right
    return right and ((not left) or _punct(nxt))


def in_inert_class(lines):
    """the hypotheses of C14_inert_delimiters_pass_through for the HTML renderer's token sets"""
    for k, l in enumerate(lines):
        if not l or '\n' in l or '|' in l or l[-1].isspace() or l[0] not in INERT_FIRST:
            return False
    s = '\n'.join(lines)
    if any(c in s for c in '\\`~') or ('<' in s and '>' in s) or ('&' in s and ';' in s) or '](' in s:
        return False
    if any(ord(c) > 127 and c not in 'é中' for c in s):
        return False
    for m in re.finditer(r'\*+|_+', s):
        if run_is_closer(s, m.start(), m.end()):
            return False
    return True


def model_inert_hypotheses(paras):
    """evaluates the theorem's computable hypotheses (Proofs/InertProse.v) on the paragraphs inside the proof assistant"""
    d = os.path.join(core.ROOT, 'coq', 'cases')
    os.makedirs(d, exist_ok=True)
    path = os.path.join(d, 'C14Cases.v')
    lit = lambda l: '[' + '; '.join(str(ord(c)) for c in l) + ']'
    body = ';\n  '.join('[' + '; '.join(lit(l) for l in p) + ']' for p in paras)
    with open(path, 'w') as f:
        f.write('From Coq Require Import ZArith List Bool.\nFrom Mistletoe Require Import Base.Sx Base.PyStr Base.PyText Gen.GenConfig Model.Parser Proofs.InertProse.\n'
                'Import ListNotations.\nOpen Scope Z_scope.\nDefinition ps : list (list (list Z)) := [\n  %s].\n'
                'Eval vm_compute in map (fun p => match p with l :: ls => inert_paragraph_b l ls && lacks_nl_config cfg_html (join [10] (l :: ls)) | [] => false end) ps.\n' % body)
    rc, out = core.sh(['coqc', '-Q', 'theories', 'Mistletoe', path], timeout=900, cwd=os.path.join(core.ROOT, 'coq'))
    for ext in ('.vo', '.vok', '.vos', '.glob'):
        try:
            os.remove(path[:-2] + ext)
        except OSError:
            pass
    try:
        os.remove(os.path.join(d, '.C14Cases.aux'))
    except OSError:
        pass
    if rc != 0 or '=' not in out:
        return None, out[-400:]
    return re.findall(r'\b(true|false)\b', out.split('=', 1)[1].split(': list bool')[0]), ''


def run(ctx, only=None):
    ctx.cov['rule'] = ('paragraphs of 1-4 lines x 1-6 tokens from a %d-token vocabulary of tricky-but-inert words, kept when the independent inertness predicate '
                       'holds; every 1- and 2-token line exhaustively; each with and without a final newline; non-trivial = the paragraph contains a character '
                       'of *_-+#>=|~^$%%@[]()&<.) ; distinct = distinct paragraphs' % len(VOCAB))
    rng = random.Random(ctx.seed)
    paras = [[a] for a in VOCAB] + [[a + ' ' + b] for a in VOCAB for b in VOCAB] + [[a, b] for a in VOCAB for b in VOCAB]
    paras += [['word', b, 'word'] for b in VOCAB] + [['. x'], [') x'], ['a', '. b'], ['a', ') b'], ['1234567890. x'], ['a', '2. b'], ['a', '-x'], ['a', '+ b'.replace('+ b', '+b')]]
    for _ in range(10000 if ctx.quick() else 200000):
        paras.append(gen_paragraph(rng))
    # longer paragraphs assembled from lines that are inert on their own (the whole paragraph is still filtered below)
    lines_first = [p[0] for p in (gen_paragraph(rng) for _ in range(20000)) if inert([p[0]])]
    lines_cont = [l for l in lines_first if inert(['x', l])]
    for _ in range(15000 if ctx.quick() else 300000):
        paras.append([rng.choice(lines_first)] + [rng.choice(lines_cont) for _ in range(rng.randint(1, 3))])
    seen = set()
    kept = []
    skipped = 0
    for p in paras:
        k = tuple(p)
        if k in seen:
            continue
        seen.add(k)
        if inert(p):
            kept.append(p)
        else:
            skipped += 1
    with mp.Pool(core.NPROC) as pool:
        res = pool.map(worker, kept, chunksize=200)
    nontriv = 0
    for p, bad in zip(kept, res):
        ctx.count('evaluations')
        if re.search(r'[*_\-+#>=|~^$%@\[\]()&<.)]', ''.join(p)):
            nontriv += 1
        for (form, got, want) in bad:
            ctx.failing.append({'interface': 'oracle(prose)', 'input': {'text': form}, 'what': 'an inert paragraph is not rendered as its own text inside one <p>',
                                'observed': got, 'expected': want, 'kf': None})
    ctx.cov['paragraphs_skipped_by_the_inertness_predicate'] = skipped
    # the class of the unbounded theorem, on the implementation: random lines free of the trigger characters
    wide = list('abcXYZ019 .,;:?()"\'#+-=>/@%^}') + ['é', '中', '\u00a0', '\u3000', 'ß', '—', '«', '😀', '\x0c', '\x1f']
    plain = []
    while len(plain) < (3000 if ctx.quick() else 60000):
        l = ''.join(rng.choice(wide) for _ in range(rng.randint(1, 30)))
        if not l[0].isspace() and l[0] not in '#*+-0123456789<>[_`~' and not l[-1].isspace():
            plain.append(l)
    with mp.Pool(core.NPROC) as pool:
        pres = pool.map(plain_worker, plain, chunksize=200)
    for l, got in zip(plain, pres):
        ctx.count('evaluations')
        ctx.count('plain_lines')
        want = '<p>' + html.escape(l, quote=False) + '</p>\n'
        if got != want:
            ctx.failing.append({'interface': 'oracle(plain line)', 'input': {'lines': [l + '\n']}, 'what': 'a line without trigger characters is not rendered as its own text inside one <p>',
                                'observed': got, 'expected': want, 'kf': None})
    # ... and paragraphs of several such lines (C14_prose_paragraph_passes_through): continuation lines must not begin with '=' either
    multi = []
    cont = [l for l in plain if l[0] != '=']
    while len(multi) < (2000 if ctx.quick() else 40000):
        multi.append([rng.choice(plain)] + [rng.choice(cont) for _ in range(rng.randint(1, 5))])
    with mp.Pool(core.NPROC) as pool:
        mres = pool.map(plain_worker, multi, chunksize=200)
    for ls, got in zip(multi, mres):
        ctx.count('evaluations')
        ctx.count('plain_paragraphs_of_several_lines')
        want = '<p>' + html.escape('\n'.join(ls), quote=False) + '</p>\n'
        if got != want:
            ctx.failing.append({'interface': 'oracle(plain lines)', 'input': {'lines': [x + '\n' for x in ls]}, 'what': 'lines without trigger characters are not rendered as their own text inside one <p>',
                                'observed': got, 'expected': want, 'kf': None})
    # the class of C14_inert_delimiters_pass_through: delimiter characters where they mean nothing, any number of lines
    inert_ps, tried = [], 0
    while len(inert_ps) < (4000 if ctx.quick() else 80000) and tried < 4000000:
        tried += 1
        p = [' '.join(rng.choice(INERT_WORDS) for _ in range(rng.randint(1, 7))) for _ in range(rng.randint(1, 5))]
        if in_inert_class(p):
            inert_ps.append(p)
    ctx.cov['inert_delimiter_paragraphs_generated'] = tried
    with mp.Pool(core.NPROC) as pool:
        ires = pool.map(plain_worker, inert_ps, chunksize=200)
    for ls, got in zip(inert_ps, ires):
        ctx.count('evaluations')
        ctx.count('inert_delimiter_paragraphs')
        if re.search(r'[*_\[\]!<>]', ''.join(ls)):
            ctx.count('inert_delimiter_paragraphs_with_delimiters')
        want = '<p>' + html.escape('\n'.join(ls), quote=False) + '</p>\n'
        if got != want:
            ctx.failing.append({'interface': 'oracle(inert delimiters)', 'input': {'lines': [x + '\n' for x in ls]},
                                'what': 'delimiter characters in positions where they mean nothing are not rendered as their own text inside one <p>',
                                'observed': got, 'expected': want, 'kf': None})
    # the theorem's own hypotheses, evaluated in the proof assistant on a sample of those paragraphs (short ones: the check is cubic)
    short = [p for p in inert_ps if sum(len(x) + 1 for x in p) <= 70][:(60 if ctx.quick() else 400)]
    if short and not ctx.proof_failures:
        flags, err = model_inert_hypotheses(short)
        if flags is None or len(flags) != len(short):
            ctx.disagreements.append({'interface': 'X-hyp(inert delimiters)', 'input': {'lines': short[0]}, 'model': 'the hypotheses could not be evaluated: ' + err, 'impl': ''})
        else:
            for p, fl in zip(short, flags):
                ctx.count('inert_delimiter_paragraphs_with_hypotheses_checked_in_the_model')
                if fl != 'true':
                    ctx.disagreements.append({'interface': 'X-hyp(inert delimiters)', 'input': {'lines': [x + '\n' for x in p]},
                                              'model': 'a hypothesis of C14_inert_delimiters_decidable is false', 'impl': 'inside the class by the harness predicate'})
    ctx.cov['vocabulary'] = len(VOCAB)
    ctx.cov['lines_per_paragraph'] = {str(n): sum(1 for p in kept if len(p) == n) for n in (1, 2, 3, 4)}
    ctx.count('distinct_nontrivial', nontriv)
    ctx.sample({'paragraph': kept[len(kept) // 2], 'expected': '<p>' + html.escape('\n'.join(kept[len(kept) // 2]), quote=False) + '</p>\n'})
    xdoc.run(ctx, ['\n'.join(p) for p in kept[:1500 if ctx.quick() else 30000]], cfgs=(0,))
    # the HTML text itself, model vs implementation (markdown_html)
    if ctx.driver_ok:
        sel = kept[::max(1, len(kept) // (1500 if ctx.quick() else 30000))]
        for p, m in zip(sel, core.model_map([[41, 0, False, False, '\n'.join(p)] for p in sel])):
            want = '<p>' + html.escape('\n'.join(p), quote=False) + '</p>\n'
            if core.dstr(m) != want:
                ctx.disagreements.append({'interface': 'X-html(prose)', 'input': {'text': '\n'.join(p)}, 'model': core.dstr(m), 'impl': want})


def replay(ctx, obj):
    inp = obj.get('input') or {}
    if isinstance(inp, dict) and 'text' in inp:
        lines = inp['text'].rstrip('\n').split('\n')
        ctx.count('evaluations')
        if inert(lines):
            for (form, got, want) in worker(lines):
                ctx.failing.append({'interface': 'oracle(replay)', 'input': {'text': form}, 'what': 'an inert paragraph is not rendered as its own text inside one <p>',
                                    'observed': got, 'expected': want, 'kf': None})
    else:
        run(ctx)
