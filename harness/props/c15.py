"""C15 — the same text gives the same result however it is supplied."""
import multiprocessing as mp
import os
import random
import subprocess
import sys
import tempfile

from harness import core, inputs

GEN = []
THEOREMS = ['C15_str_eq_file', 'C15_list_eq_file', 'C15_final_newline', 'C15_only_lf_needed', 'C15_empty_vs_newline']
TRUSTED = ['Model/DocLines.v: hand-written model of Document.__init__ line preparation and of str.splitlines / str.split',
           "ASSUMED of CPython: a text file (or io.StringIO) whose content is s, free of '\\r', iterates as the '\\n'-terminated pieces of s"]
ASSUMPTIONS = ["texts whose only line terminator is '\\n' (no \\r \\v \\f \\x1c-\\x1e \\x85 \\u2028 \\u2029)",
               'the command-line tool is exercised by subprocess runs only (argparse, file decoding and stdout are not modelled)']

RENDERERS = ['mistletoe.html_renderer.HtmlRenderer', 'mistletoe.markdown_renderer.MarkdownRenderer', 'mistletoe.latex_renderer.LaTeXRenderer',
             'mistletoe.ast_renderer.AstRenderer', 'mistletoe.contrib.jira_renderer.JiraRenderer', 'mistletoe.contrib.xwiki20_renderer.XWiki20Renderer',
             'mistletoe.contrib.toc_renderer.TocRenderer', 'mistletoe.contrib.mathjax.MathJaxRenderer']


def get(path):
    import importlib
    mod, cls = path.rsplit('.', 1)
    return getattr(importlib.import_module(mod), cls)


def capture_lines(arg):
    """the list Document.__init__ hands to the block tokenizer"""
    from mistletoe import block_token
    got = []
    orig = block_token.tokenize
    block_token.tokenize = lambda lines: (got.append(list(lines)), [])[1]
    try:
        block_token.Document(arg)
    finally:
        block_token.tokenize = orig
    return got[0]


def worker(args):
    text, rpath = args
    import io
    import mistletoe
    R = get(rpath)
    res = {}
    try:
        res['lines_str'] = capture_lines(text)
        res['lines_file'] = capture_lines(io.StringIO(text, newline=None)) if '\r' not in text else None
        res['lines_list'] = capture_lines(text.split('\n'))
    except Exception as e:
        res['error'] = 'line capture: %s: %s' % (type(e).__name__, e)
        return res
    outs = {}
    forms = {'str': lambda: text, 'list_keepends': lambda: text.splitlines(keepends=True), 'file': lambda: io.StringIO(text)}
    if text and not text.endswith('\n'):
        forms['list_noends'] = lambda: text.split('\n')
        forms['str_plus_newline'] = lambda: text + '\n'
    for name, mk in forms.items():
        try:
            outs[name] = mistletoe.markdown(mk(), R)
        except Exception as e:
            outs[name] = 'EXC %s' % type(e).__name__
    res['outs'] = outs
    return res


def only_lf(t):
    return not any(c in t for c in '\r\v\f\x1c\x1d\x1e\x85  ')


def run(ctx, only=None):
    ctx.cov['rule'] = ("texts (spec corpus, mutations, random) x 8 renderers x {str, list with ends, list without ends, file object, +final newline}; "
                       "non-trivial = the text has at least two lines; distinct = distinct (text, renderer)")
    rng = random.Random(ctx.seed)
    n = 4000 if ctx.quick() else 60000
    texts = ['', '\n', 'a', 'a\n', 'a\n\nb', '\n\na', 'a\x0cb', 'a\rb\r\nc', 'a b'] + inputs.mixed_stream(rng, n)
    texts += [t.replace('\n', rng.choice(['\r\n', '\r', '\x0c', ' '])) for t in rng.sample(inputs.spec_texts(), 60)]
    # characters that a well-meaning entry point might treat specially at the very beginning or end of the input: a byte-order mark,
    # a zero-width space, a NUL - in front of text that would otherwise open a block
    odd = ['\ufeff', '\u200b', '\x00', '\ufeff\ufeff', '\u2060']
    texts += [o + t for o in odd for t in ['# heading\n', '- item\n- two\n', '> quote\n', 'plain\n', '```\ncode\n```\n', '1. one\n', '', '\n', 'a']]
    texts += [t + o for o in odd[:3] for t in ['plain', 'plain\n', '# h']]
    jobs = [(t, RENDERERS[i % len(RENDERERS)]) for i, t in enumerate(texts)]
    with mp.Pool(core.NPROC) as pool:
        res = pool.map(worker, jobs, chunksize=50)
    reqs, meta = [], []
    nontriv = set()
    for (text, rp), r in zip(jobs, res):
        ctx.count('evaluations')
        if 'error' in r:
            ctx.disagreements.append({'interface': 'X-lines', 'input': text, 'model': 'a line list', 'impl': r['error']})
            continue
        reqs.append([15, 0, text])
        meta.append((text, 'str', r['lines_str']))
        if r['lines_file'] is not None:
            reqs.append([15, 1, text])
            meta.append((text, 'file', r['lines_file']))
        reqs.append([15, 2, text])
        meta.append((text, 'list_noends', r['lines_list']))
        if not only_lf(text):
            ctx.count('texts_with_other_terminators(correspondence only)')
            continue
        if text.count('\n') >= 1 and len(text) > 2:
            nontriv.add((text, rp))
        outs = r['outs']
        ref = outs['str']
        for name, o in outs.items():
            if o != ref:
                ctx.failing.append({'interface': 'oracle', 'input': {'text': text, 'renderer': rp, 'form': name},
                                    'what': 'output for form %s differs from the output for the plain string' % name,
                                    'observed': o, 'expected': ref, 'kf': None})
    if ctx.driver_ok:
        mres = core.model_map(reqs)
        for (text, form, lines), m in zip(meta, mres):
            ml = [core.dstr(x) for x in m]
            if ml != lines:
                ctx.disagreements.append({'interface': 'X-lines', 'input': {'text': text, 'form': form}, 'model': ml, 'impl': lines})
    ctx.count('distinct_nontrivial', len(nontriv))
    ctx.sample({'text': texts[20], 'renderer': jobs[20][1], 'outputs_equal_for_forms': sorted(res[20].get('outs', {}))})
    # the command-line tool, one and several files
    ncli = 12 if ctx.quick() else 120
    d = tempfile.mkdtemp(prefix='verif_c15_')
    try:
        env = dict(os.environ)
        # designed first: whitespace at the end of lines is significant (hard breaks, code), as are form feeds and a missing final newline
        designed = ['foo  \nbar\n', 'foo   \nbar', '```\ncode   \n \n```\n', '    code  \t\n\n    more \n', 'a\\\nb\n', 'tab\there\t\nx\n', '> q  \n> r\n',
                    '- a  \n  b\n', '| a  | b |\n| - | - |\n| c | d  |\n', '<pre>\nx  \n</pre>\n', 'a \n===\n', '# h  \n', ' \n \nx \n \n',
                    '\ufeff# heading\n', '\ufeff- item\n']
        cli_texts = designed + [t for t in rng.sample(inputs.spec_texts(), ncli * 2) if only_lf(t)]
        ncli = ncli + len(designed) // 2
        import mistletoe
        for i in range(ncli):
            rp = RENDERERS[i % 4]
            R = get(rp)
            k = 1 + (i % 3)
            files, expect = [], b''
            for j in range(k):
                t = cli_texts[(i * 3 + j) % len(cli_texts)]
                if (i + j) % 2:
                    t = t.rstrip('\n')
                p = os.path.join(d, 'f%d_%d.md' % (i, j))
                with open(p, 'w', encoding='utf-8', newline='') as f:
                    f.write(t)
                files.append(p)
                expect += mistletoe.markdown(t, R).encode()
            if i % 4 == 1:
                # the same file named twice: every argument is rendered, in order
                files.append(files[0])
                expect += mistletoe.markdown(open(files[0], encoding='utf-8', newline='').read(), R).encode()
            pr = subprocess.run([sys.executable, '-m', 'mistletoe', '-r', rp] + files, env=env, cwd='/', stdout=subprocess.PIPE,
                                stderr=subprocess.PIPE, timeout=120)
            ctx.count('evaluations')
            ctx.count('cli_runs')
            if pr.returncode != 0 or pr.stdout != expect:
                ctx.failing.append({'interface': 'oracle(CLI)', 'input': {'files': [open(p, encoding='utf-8').read() for p in files], 'renderer': rp, 'arguments': [os.path.basename(p) for p in files]},
                                    'what': 'python -m mistletoe output differs from mistletoe.markdown on the same texts',
                                    'observed': pr.stdout.decode('utf8', 'replace')[:500], 'expected': expect.decode()[:500], 'kf': None})
    finally:
        for f in os.listdir(d):
            os.unlink(os.path.join(d, f))
        os.rmdir(d)


def replay(ctx, obj):
    run(ctx)
