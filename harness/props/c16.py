"""C16 — inline tokenization tiles the source; custom tokens obey precedence.

Correspondence X-span: the real span_tokenizer.tokenize driven with synthetic
token classes whose find() returns prescribed matches, against the extracted
Model.SpanTokenizer.tokenize on the same candidate list.
Oracle: the property's clauses checked directly on the implementation's output.
"""
import itertools
import multiprocessing as mp

from harness import core

GEN = ['gen_core']
THEOREMS = ['C16_relation_is_the_source', 'C16_tiling', 'C16_sorted_disjoint', 'C16_children_inside', 'C16_text_recovered',
            'C16_subset', 'C16_pair_rule', 'C16_pair_rule_as_stated', 'C16_trailing_region_refuted']
TRUSTED = ['hand-written model coq/theories/Model/SpanTokenizer.v of mistletoe/span_tokenizer.py '
           '(tied by the X-span correspondence run, not verified against the source text)']
ASSUMPTIONS = ['candidates satisfy 0 <= start <= parse_start <= parse_end <= end <= len(string) '
               '(a parse group that did not participate in the match is outside the theorem)',
               'html.unescape of raw text is not part of the tiling statement (spans are compared)']


# ------------------------------------------------------------ implementation side
class FakeMatch:
    def __init__(self, cand, string):
        self.c = cand
        self.string = string

    def start(self, g=0):
        return self.c[2] if g else self.c[0]

    def end(self, g=0):
        return self.c[3] if g else self.c[1]

    def group(self, g=0):
        return self.string[self.start(g):self.end(g)]


def mk_string(n):
    return ''.join(chr(0x4e00 + i) for i in range(n))


def impl_tokenize(types, length):
    """types: list of (prec, inner, [cand...]) with cand=(cs,ce,ps,pe,cid).
    Returns the dumped forest in the wire shape of the model."""
    from mistletoe import span_token, span_tokenizer
    string = mk_string(length)
    classes = []
    for (prec_, inner_, cands) in types:
        ms = [FakeMatch(c, string) for c in cands]

        class T(span_token.SpanToken):
            precedence = prec_
            parse_inner = inner_
            parse_group = 1
            _ms = ms

            def __init__(self, match):
                self.m = match
                super().__init__(match)

            @classmethod
            def find(cls, s):
                return list(cls._ms)
        classes.append(T)
    toks = span_tokenizer.tokenize(string, classes + [span_token.RawText])
    return dump(toks, string)


def dump(toks, string):
    from mistletoe import span_token
    out = []
    for t in toks:
        if isinstance(t, span_token.RawText):
            a = string.index(t.content) if t.content else -1
            out.append([0, a, a + len(t.content)])
        else:
            ch = t.children
            out.append([1, t.m.c[4], 0 if ch is None else 1, [] if ch is None else dump(list(ch), string)])
    return out


def oracle(types, length, forest):
    """the property's clauses on the implementation's output; returns a list of
    (what, kf) — empty when the output satisfies the property"""
    bad = []
    cands = {}
    for (p, inn, cs) in types:
        for c in cs:
            cands[c[4]] = (c, p, inn)
    seen = []

    def walk(items, lo, hi):
        pos = lo
        for it in items:
            if it[0] == 0:
                a, b = it[1], it[2]
                if not a < b:
                    bad.append(('empty raw text token', None))
            else:
                cid = it[1]
                if cid not in cands:
                    bad.append(('token not among the candidates', None))
                    return
                seen.append(cid)
                c, p, inn = cands[cid]
                a, b = c[0], c[1]
                if it[2] != (1 if inn else 0):
                    bad.append(('children presence disagrees with parse_inner', None))
                if it[2]:
                    walk(it[3], c[2], c[3])
            if a != pos:
                bad.append(('tokens do not tile the source: gap/overlap at %d (token starts at %d)' % (pos, a), None))
            pos = b
        if pos != hi:
            bad.append(('tokens do not tile the source: end %d != %d' % (pos, hi), None))
    walk(forest, 0, length)
    if len(seen) != len(set(seen)):
        bad.append(('a candidate appears twice', None))
    # the two-candidate rule as the property words it
    allc = [(c, p, inn) for (p, inn, cs) in types for c in cs]

    def pair_rule(c1, c2):
        """(expected shape, is the recorded trailing-region finding) for two candidates given in candidate-list order"""
        two = [c1, c2]
        order = sorted(range(2), key=lambda i: two[i][0][0])  # stable
        (x, px, ix), (y, py, iy) = two[order[0]], two[order[1]]
        if x[1] <= y[0]:
            exp = [(x[4], []), (y[4], [])]
        elif x[2] <= y[0] and y[1] <= x[3]:
            exp = [(x[4], [(y[4], [])] if ix else [])]
        elif py <= px:
            exp = [(x[4], [])]
        else:
            exp = [(y[4], [])]
        trailing = (not x[1] <= y[0]) and not (x[2] <= y[0] and y[1] <= x[3]) and (y[1] <= x[1] and x[3] <= y[0]) and py > px
        return exp, trailing

    def shape(items):
        return [(it[1], shape(it[3])) for it in items if it[0] == 1]
    if len(allc) == 2 and not bad:
        exp, trailing = pair_rule(allc[0], allc[1])
        if shape(forest) != exp:
            bad.append(('two-candidate rule: got %s, stated rule gives %s' % (shape(forest), exp),
                        'kf_trailing_region' if trailing else None))
    # ... and the same rule one level down: a first candidate that parses its inside and holds the two others in its
    # parse group has for children what the rule gives for those two
    if len(allc) == 3 and not bad:
        for i in range(3):
            (x, px, ix) = allc[i]
            rest = [allc[j] for j in range(3) if j != i]
            if ix and x[0] < x[1] and all(r[0][0] < r[0][1] and x[0] < r[0][0] and x[2] <= r[0][0] and r[0][1] <= x[3] for r in rest):
                inner, trailing = pair_rule(rest[0], rest[1])
                exp = [(x[4], inner)]
                if shape(forest) != exp:
                    bad.append(('the two-candidate rule inside an enclosing token: got %s, stated rule gives %s' % (shape(forest), exp),
                                'kf_trailing_region' if trailing else None))
                break
    return bad


def work(case):
    types, length = case
    try:
        forest = impl_tokenize(types, length)
        err = None
    except Exception as e:  # the tokenizer must not raise on well-formed candidates
        forest, err = None, '%s: %s' % (type(e).__name__, e)
    bad = oracle(types, length, forest) if forest is not None else [('tokenizer raised ' + err, None)]
    return forest, bad


def to_req(case):
    types, length = case
    cands = [[c[0], c[1], c[2], c[3], p, 1 if inn else 0, c[4]] for (p, inn, cs) in types for c in cs]
    return [16, length, cands]


# ------------------------------------------------------------ generators
def groups(a, b):
    return [(p, q) for p in range(a, b + 1) for q in range(p, b + 1)]


def gen_pairs(maxpos, precs):
    ivs = [(a, b) for a in range(maxpos + 1) for b in range(a + 1, maxpos + 1)]
    full = [(a, b, p, q) for (a, b) in ivs for (p, q) in groups(a, b)]
    for x in full:
        for y in full:
            for px in precs:
                for py in precs:
                    for ix in (True, False):
                        for iy in (True, False):
                            yield ([(px, ix, [x + (0,)]), (py, iy, [y + (1,)])], maxpos)


def gen_enclosed_pairs(maxpos, precs):
    """every pair of gen_pairs shifted one to the right, inside the parse group of an enclosing candidate that parses its inside"""
    for (types, length) in gen_pairs(maxpos, precs):
        (px, ix, [x]), (py, iy, [y]) = types
        sh = lambda c, cid: (c[0] + 1, c[1] + 1, c[2] + 1, c[3] + 1, cid)
        for pe in (precs[0], precs[-1]):
            yield ([(pe, True, [(0, length + 2, 1, length + 1, 0)]), (px, ix, [sh(x, 1)]), (py, iy, [sh(y, 2)])], length + 2)


def gen_random(rng, n):
    for _ in range(n):
        length = rng.randint(1, 14)
        nt = rng.randint(1, 4)
        types = []
        cid = 0
        for _t in range(nt):
            cs = []
            for _m in range(rng.randint(0, 4)):
                a = rng.randint(0, length)
                b = rng.randint(a, length) if rng.random() < 0.9 else a
                p = rng.randint(a, b)
                q = rng.randint(p, b)
                if rng.random() < 0.3:
                    p, q = a, b
                cs.append((a, b, p, q, cid))
                cid += 1
            types.append((rng.randint(3, 7), rng.random() < 0.7, cs))
        yield (types, length)


# ------------------------------------------------------------ real-renderer stream
def real_stream_worker(args):
    """custom regex-defined tokens registered through a real renderer; the
    candidates every token type reports are recorded by thin subclasses and the
    model is asked to resolve the same candidates"""
    seed, n = args
    import random
    import re
    import html
    from mistletoe import span_token, span_tokenizer, token as token_mod
    from mistletoe.html_renderer import HtmlRenderer
    rng = random.Random(seed)
    out = []
    alphabet = ['a', 'b', ' ', '*', '_', '`', '[', ']', '(', ')', '<', '>', '~', '\\', '!', '@', '#', ':', '/', '.', '&', ';', '\n', 'x', '=', '"']
    pats = [(r'@(\w+)@', 1), (r'#\[(.*?)\]', 1), (r'=(=*)=', 1), (r'(x+)', 1), (r'\*(a*)', 1), (r'a(b?)', 1), (r':(.+?):', 1), (r'\((\w*)\)', 1), (r'`(.)', 1),
            # matches that begin ON the backslash of a valid escape: the escape must keep its place in front of them
            (r'\\\*(\w*)', 1), (r'\\([_a]+)', 1)]
    for _ in range(n):
        k = rng.randint(0, 3)
        customs = []
        for j in range(k):
            pat, grp = rng.choice(pats)
            ns = {'pattern': re.compile(pat), 'parse_group': rng.choice([grp, grp, 0]), 'precedence': rng.randint(1, 7),
                  'parse_inner': rng.random() < 0.6}
            cls = type('Custom' + 'ABCD'[j], (span_token.SpanToken,), ns)
            customs.append(cls)
        text = ''.join(rng.choice(alphabet) for _ in range(rng.randint(1, 30)))
        before = list(span_token._token_types)
        rec = {'text': text, 'customs': [(c.pattern.pattern, c.precedence, c.parse_inner) for c in customs]}
        try:
            R = type('R', (HtmlRenderer,), {'render_custom_' + 'abcd'[j]: (lambda self, t: '') for j in range(k)})
            with R(*customs) as r:
                active = list(span_token._token_types)
                rec['registered'] = all(c in active for c in customs)
                # the escape stays the first type: a custom token never gets in front of it (ties at one position go to the type listed first)
                rec['escape_first'] = active[0].__name__ == 'EscapeSequence'
                cands = []
                wrapped = []
                cid = [0]
                for T in active[:-1]:
                    def mkfind(T):
                        def find(cls, s):
                            ms = list(T.find(s))
                            for m in ms:
                                cands.append((m, T))
                            return ms
                        return classmethod(find)
                    W = type(T.__name__, (T,), {'find': mkfind(T)})
                    wrapped.append(W)
                token_mod._root_node = type('D', (), {'footnotes': {}})()
                toks = span_tokenizer.tokenize(text, wrapped + [active[-1]])
                token_mod._root_node = None

                def dumpreal(ts):
                    res = []
                    for t in ts:
                        nm = type(t).__name__
                        if nm == 'RawText':
                            res.append(['RawText', t.content])
                        elif t.children is not None and getattr(type(t), 'parse_inner', True):
                            res.append([nm, dumpreal(list(t.children))])
                        else:
                            res.append([nm, None])
                    return res
                rec['impl'] = dumpreal(toks)
                wire = []
                names = []
                for i, (m, T) in enumerate(cands):
                    g = T.parse_group
                    wire.append([m.start(), m.end(), m.start(g), m.end(g), T.precedence, 1 if T.parse_inner else 0, i])
                    names.append(getattr(m, 'type', None) if T.__name__ == 'CoreTokens' else T.__name__)
                rec['cands'] = wire
                rec['names'] = names
            rec['reset'] = (span_token._token_types == before) and not any(c in span_token._token_types for c in customs)
            # ... and a context that is left by an exception ends all the same
            try:
                with R(*customs):
                    raise ZeroDivisionError('the with block is left by an exception')
            except ZeroDivisionError:
                pass
            rec['reset_after_exception'] = (span_token._token_types == before) and not any(c in span_token._token_types for c in customs)
            if not rec['reset_after_exception']:
                span_token.reset_tokens()
                from mistletoe import block_token as _bt
                _bt.reset_tokens()
        except Exception as e:
            rec['error'] = '%s: %s' % (type(e).__name__, e)
            span_token.reset_tokens()
            from mistletoe import block_token
            block_token.reset_tokens()
        out.append(rec)
    return out


def md_unescape(s):
    """html.unescape as span_tokenizer.tokenize applies it: with html._charref swapped for _markdown_charref"""
    import html
    from mistletoe import span_tokenizer
    try:
        html._charref = span_tokenizer._markdown_charref
        return html.unescape(s)
    finally:
        html._charref = span_tokenizer._stdlib_charref


def model_shape(forest, names, text):
    res = []
    for it in forest:
        if it[0] == 0:
            res.append(['RawText', md_unescape(text[it[1]:it[2]])])
        else:
            res.append([names[it[1]], model_shape(it[3], names, text) if it[2] else None])
    return res


# ------------------------------------------------------------ the check
def run_cases(ctx, cases, label):
    with mp.Pool(core.NPROC) as pool:
        impl = pool.map(work, cases, chunksize=500)
    model = core.model_map([to_req(c) for c in cases]) if ctx.driver_ok else [None] * len(cases)
    nontriv = set()
    for case, (forest, bad), mres in zip(cases, impl, model):
        ctx.count('evaluations')
        ctx.count('cases_' + label)
        allc = [c for (_p, _i, cs) in case[0] for c in cs]
        overlap = any(a[0] < b[1] and b[0] < a[1] for a, b in itertools.combinations(allc, 2))
        if overlap:
            nontriv.add(repr(case))
        if ctx.driver_ok and forest is not None and forest != mres:
            ctx.disagreements.append({'interface': 'X-span', 'input': case, 'model': mres, 'impl': forest})
        for what, kf in bad:
            ctx.failing.append({'interface': 'X-span', 'input': {'types': case[0], 'length': case[1]},
                                'what': what, 'kf': kf, 'observed': forest})
    ctx.count('distinct_nontrivial', len(nontriv))
    if cases:
        ctx.sample({'stream': label, 'types(prec,parse_inner,[(start,end,parse_start,parse_end,id)])': cases[len(cases) // 2][0],
                    'length': cases[len(cases) // 2][1], 'impl_forest': impl[len(cases) // 2][0]})


def run(ctx):
    ctx.cov['rule'] = ('X-span: candidate sets fed to the real span_tokenizer.tokenize through synthetic token classes and to '
                       'the extracted model; a case is non-trivial when at least two candidates overlap; distinct = distinct candidate sets')
    # witness of the recorded finding first, then corpus
    wit = ([(3, True, [(0, 10, 1, 4, 0)]), (7, True, [(6, 9, 7, 8, 1)])], 10)
    run_cases(ctx, [wit], 'corpus')
    maxpos = 3 if ctx.quick() else 4
    precs = [3, 4, 5, 6, 7]
    pairs = list(gen_pairs(maxpos, precs))
    run_cases(ctx, pairs, 'exhaustive_pairs')
    ctx.cov['exhaustive_pairs'] = ('all pairs of candidates with endpoints in 0..%d (every Allen relation, every parse group) x '
                                   'precedence 3..7 x parse_inner' % maxpos)
    enc = list(gen_enclosed_pairs(2 if ctx.quick() else 3, [3, 5, 7]))
    run_cases(ctx, enc, 'exhaustive_pairs_inside_an_enclosing_token')
    n = 40000 if ctx.quick() else 1000000
    rnd = list(gen_random(ctx.rng, n))
    sizes = {}
    for t, _l in rnd:
        k = sum(len(cs) for (_p, _i, cs) in t)
        sizes[k] = sizes.get(k, 0) + 1
    ctx.cov['random_set_sizes'] = {str(k): v for k, v in sorted(sizes.items())}
    for i in range(0, len(rnd), 200000):
        run_cases(ctx, rnd[i:i + 200000], 'random_sets')
    # real renderer, regex-defined custom tokens
    nreal = 6000 if ctx.quick() else 100000
    per = nreal // core.NPROC
    with mp.Pool(core.NPROC) as pool:
        recs = [r for chunk in pool.map(real_stream_worker, [(ctx.seed * 1000 + i, per) for i in range(core.NPROC)]) for r in chunk]
    good = [r for r in recs if 'error' not in r]
    model = core.model_map([[16, len(r['text']), r['cands']] for r in good]) if ctx.driver_ok else []
    for r in recs:
        ctx.count('evaluations')
        ctx.count('cases_real_renderer')
        if 'error' in r:
            ctx.failing.append({'interface': 'real-renderer', 'input': {'text': r['text'], 'customs': r['customs']},
                                'what': 'inline tokenization raised ' + r['error'], 'kf': None})
            continue
        if not r['registered'] or not r['reset']:
            ctx.failing.append({'interface': 'real-renderer', 'input': {'text': r['text'], 'customs': r['customs']},
                                'what': 'custom tokens not active exactly inside the renderer context', 'kf': None})
        elif not r.get('escape_first', True):
            ctx.failing.append({'interface': 'real-renderer', 'input': {'text': r['text'], 'customs': r['customs']},
                                'what': 'inside the renderer context a custom token type stands in front of EscapeSequence: a match that begins on the backslash of an escape takes the tie',
                                'kf': None})
        elif not r.get('reset_after_exception', True):
            ctx.failing.append({'interface': 'real-renderer', 'input': {'text': r['text'], 'customs': r['customs'], 'context_left_by': 'an exception raised in the with block'},
                                'what': 'custom tokens are still recognised after a renderer context that was left by an exception', 'kf': None})
    for r, m in zip(good, model):
        ms = model_shape(m, r['names'], r['text'])
        if ms != r['impl']:
            ctx.disagreements.append({'interface': 'X-span(real renderer)', 'input': {'text': r['text'], 'customs': r['customs']},
                                      'model': ms, 'impl': r['impl']})
    if good:
        ctx.sample({'stream': 'real_renderer', 'text': good[0]['text'], 'customs(pattern,prec,parse_inner)': good[0]['customs'],
                    'impl': good[0]['impl']})


def replay(ctx, obj):
    inp = obj['input']
    if 'types' in inp:
        types = [(p, i, [tuple(c) for c in cs]) for (p, i, cs) in inp['types']]
        run_cases(ctx, [(types, inp['length'])], 'replay')
    else:
        run(ctx)
