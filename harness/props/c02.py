"""C02 — all CommonMark 0.30 normative examples render exactly as specified."""
import multiprocessing as mp
import re

from harness import core, inputs

GEN = ['gen_tables', 'gen_regex', 'gen_config', 'gen_escapes', 'gen_corpus']
THEOREMS = ['C02_spec_conformance', 'C02_all', 'C02_corpus_complete']
TRUSTED = ['the whole-pipeline Gallina model (Model/Block.v, Build.v, Inline.v, CoreTokens.v, SpanTokenizer.v, HtmlRenderer.v, Re/ReMatch.v): '
           'hand-written control flow; every regular expression, character table, token list and escape table is regenerated from /repo on each run',
           'vm_compute (the kernel evaluates the model on the 652 examples)',
           'the vendored corpus /verif/corpus/commonmark-0.30.json (copied from test/specification/commonmark.json at the pinned commit)']
ASSUMPTIONS = ['exact string equality is proved (stronger than equality under the specification\'s normaliser)']


def worker(md):
    from mistletoe import Document
    from mistletoe.html_renderer import HtmlRenderer
    lines = md.splitlines(keepends=True)       # as test/specification supplies it
    try:
        with HtmlRenderer(html_escape_double_quotes=True) as r:
            a = r.render(Document(lines))
        with HtmlRenderer(html_escape_double_quotes=True) as r:
            b = r.render(Document(md))
        return a, b
    except Exception as e:
        return 'EXC %s: %s' % (type(e).__name__, e), None


def normalize(html):
    """the comparison of the specification's own test driver, reduced to what matters here:
    whitespace between block tags and around line ends is insignificant"""
    html = re.sub(r'>\s+<', '><', html.strip())
    return re.sub(r'\s*\n\s*', '\n', html)


def run(ctx, only=None):
    ctx.cov['rule'] = ('the complete corpus of 652 examples, both sides exhaustive: the kernel evaluates the model on every example; the '
                       'implementation is run on every example (as list of lines and as string) and compared with the model and with the '
                       'expected HTML; non-trivial = every example')
    ex = inputs.corpus()
    with mp.Pool(core.NPROC) as pool:
        outs = pool.map(worker, [e['markdown'] for e in ex])
    model = core.model_map([[41, 0, True, False, e['markdown']] for e in ex]) if ctx.driver_ok else [None] * len(ex)
    sections = {}
    for e, (a, b), m in zip(ex, outs, model):
        ctx.count('evaluations')
        sections[e['section']] = sections.get(e['section'], 0) + 1
        inp = {'example': e['example'], 'section': e['section'], 'markdown': e['markdown']}
        if a != b:
            ctx.failing.append({'interface': 'oracle', 'input': inp, 'what': 'lines and string forms render differently', 'observed': a, 'expected': b, 'kf': None})
        if normalize(a) != normalize(e['html']):
            ctx.failing.append({'interface': 'oracle', 'input': inp, 'what': 'example %d does not render as specified' % e['example'],
                                'observed': a, 'expected': e['html'], 'kf': None})
        if ctx.driver_ok and core.dstr(m) != a:
            ctx.disagreements.append({'interface': 'X-doc+X-html(example %d)' % e['example'], 'input': inp, 'model': core.dstr(m), 'impl': a})
    ctx.cov['exhaustive'] = True
    ctx.cov['sections'] = sections
    ctx.count('distinct_nontrivial', len(ex))
    ctx.sample({'example': ex[41]['example'], 'markdown': ex[41]['markdown'], 'html': outs[41][0]})


def replay(ctx, obj):
    run(ctx)
