"""C19 — the table of contents lists exactly the qualifying headings, in order."""
import html as html_mod
import multiprocessing as mp
import random
import re

from harness import core, inputs, trees

GEN = ['gen_escapes', 'gen_dispatch', 'gen_regex', 'gen_config', 'gen_tables']
THEOREMS = ['C19_render_order', 'C19_collect', 'C19_only_qualifying', 'C19_plain_text', 'C19_nesting', 'C19_nesting_hypotheses']
TRUSTED = ['Model/Contrib.v: hand-written model of TocRenderer.render_heading / parse_rendered_heading (strip_tags re-implements '
           "re.sub(r'<.+?>', '', s); differentially tested)", 'the HTML model of C08', 'the outline generator (oracle side)']
ASSUMPTIONS = ['nesting of the rebuilt list: theorem C19_nesting over ALL heading lists that form an outline with plain titles (computable hypotheses outline_okb, '
               'titles_okb: no inline trigger character or tab, first character not a block-marker character, no trailing white space), about the model of '
               'block_token.tokenize on the lines TocRenderer.toc writes; the model is tied to the code by comparing the token tree of r.toc with the model\'s on every '
               'generated document (X-toc(tree)); titles outside titles_okb are decided by the oracle only',
               'the theorem part also covers collection, order, filtering and text']

TRIGGERS = set('\\*_[]!`~<\n$&{|')
MARKER_FIRST = set(' \t\n\r\x0b\x0c#*+-0123456789<>[_`~')


def title_ok(w):
    """titles_okb of Proofs/TocNest.v (ASCII reading)"""
    return bool(w) and not (set(w) & TRIGGERS) and '\t' not in w and w[0] not in MARKER_FIRST and not w[-1].isspace()


WORDS = ['alpha', 'beta', 'gamma', 'delta', 'omega', 'intro', 'usage', 'notes', 'api', 'faq', 'skipme', 'skip this', 'x1', 'Chapter', 'two words',
         # characters that are escaped in the rendered heading the table of contents is read from
         'size < limit', 'a <= b', 'R&D', 'x > y', 'Q&A 1 < 2']


def gen_outline(rng):
    """an outline: first heading at the shallowest level, never deepening by more than one"""
    n = rng.randint(0, 7)
    base = rng.choice([1, 1, 1, 2, 3])
    levels = []
    for i in range(n):
        if not levels:
            levels.append(base)
        else:
            levels.append(rng.randint(base, min(6, levels[-1] + 1)))
    heads = []
    used = set()
    for lv in levels:
        if used and rng.random() < 0.2:
            w = rng.choice(sorted(used))            # the same title again: the table lists it as often as it is written
        else:
            w = rng.choice(WORDS) + ' ' + str(len(used))
        used.add(w)
        heads.append((lv, w))
    repeated = {w for _, w in heads if sum(1 for _, x in heads if x == w) > 1}
    lines = []
    setext_in_quote = []
    for lv, w in heads:
        if rng.random() < 0.4:
            lines.append('some text here\n')
            lines.append('\n')
        style = rng.random()
        cont = rng.random()
        pre = ''
        if cont < 0.15:
            pre = '> '
        elif cont < 0.3:
            pre = '- '
        if lv <= 2 and style < 0.3 and not (pre == '> ' and w in repeated):      # (the recorded finding is recognised by title)
            ind = '  ' if pre == '- ' else pre
            if pre == '> ':
                setext_in_quote.append(w)
            lines.append(pre + w + '\n')
            lines.append(ind + ('===' if lv == 1 else '---') + '\n')
        else:
            lines.append(pre + '#' * lv + ' ' + w + rng.choice(['', ' #', ' ##']) + '\n')
        lines.append('\n')
    return (heads, setext_in_quote), ''.join(lines)


FILTERS = {'none': [], 'skip': [lambda x: x.startswith('skip')], 'regex': [lambda x: re.match(r'(api|faq)', x), lambda x: 'Chapter' in x]}


def flatten_toc(tok, depth=0):
    """(depth, text) for every entry of the nested list, in order"""
    out = []
    for item in tok.children:
        for ch in item.children:
            nm = type(ch).__name__
            if nm == 'Paragraph':
                out.append((depth, ''.join(getattr(c, 'content', '?') for c in ch.children)))
            elif nm == 'List':
                out += flatten_toc(ch, depth + 1)
            else:
                out.append((depth, '<%s>' % nm))
    return out


def worker(args):
    (heads, _sq), text, depth, omit, fname, dq = args
    from mistletoe import Document
    from mistletoe.contrib.toc_renderer import TocRenderer
    res = {}
    try:
        with TocRenderer(depth=depth, omit_title=omit, filter_conds=FILTERS[fname], html_escape_double_quotes=dq) as r:
            doc = Document(text)
            r.render(doc)
            res['headings'] = [list(h) for h in r._headings]
            res['tree'] = trees.dump(doc)
            try:
                toc = r.toc
                res['toc_type'] = type(toc).__name__
                res['toc'] = flatten_toc(toc) if type(toc).__name__ == 'List' else None
                # the token tree itself, for the correspondence with the model (inline parsing consults the document's
                # link definitions: compared only when there are none)
                res['toc_tree'] = trees.dump(toc) if not doc.footnotes else None
            except IndexError:
                res['toc_type'] = 'IndexError'
                res['toc'] = None
    except Exception as e:
        res['error'] = '%s: %s' % (type(e).__name__, e)
    return res


def strip_worker(s):
    from mistletoe.contrib.toc_renderer import TocRenderer
    return TocRenderer.parse_rendered_heading(s)


def is_outline(levels, base):
    if not levels or levels[0] != base or min(levels) != base:
        return False
    return all(b <= a + 1 for a, b in zip(levels, levels[1:]))


def run(ctx, only=None):
    ctx.cov['rule'] = ('generated outline documents (ATX/setext headings, at top level and inside quotes / list items, plain-word titles) x depth 1-6 '
                       'x omit_title x filters; non-trivial = at least two headings; distinct = distinct (document, configuration)')
    rng = random.Random(ctx.seed)
    n = 6000 if ctx.quick() else 120000
    jobs = []
    for _ in range(n):
        heads, text = gen_outline(rng)
        jobs.append((heads, text, rng.randint(1, 6), rng.random() < 0.5, rng.choice(list(FILTERS)), rng.random() < 0.5))
    # spec-derived texts too (arbitrary trees): correspondence only
    extra = [(([], []), t, rng.randint(1, 6), rng.random() < 0.5, 'none', False) for t in inputs.mixed_stream(rng, 1500 if ctx.quick() else 20000)]
    with mp.Pool(core.NPROC) as pool:
        res = pool.map(worker, jobs + extra, chunksize=100)
    reqs, meta = [], []
    toc_trees = {}
    nontriv = set()
    dist = {}
    for ((heads, sq), text, depth, omit, fname, dq), r in zip(jobs + extra, res):
        ctx.count('evaluations')
        if 'error' in r:
            ctx.count('impl_exceptions')
            continue
        if fname == 'none':
            reqs.append([19, depth, omit, dq, False, r['tree']])
            meta.append((text, depth, omit, r['headings']))
            # the block model reads LINES (one trailing newline each, as Document prepares them); a heading whose text holds a newline
            # (a setext heading of several lines) makes toc hand over a 'line' with an embedded newline: not compared
            if r.get('toc_type') == 'List' and r.get('toc_tree') is not None and all('\n' not in h[1] for h in r['headings']):
                toc_trees[(text, depth, omit)] = r['toc_tree']
        if not heads:
            continue
        dist[len(heads)] = dist.get(len(heads), 0) + 1
        if len(heads) >= 2:
            nontriv.add((text, depth, omit, fname))
        exp = [[lv, w] for lv, w in heads
               if not (omit and lv == 1) and lv <= depth and not any(f(w) for f in FILTERS[fname])]
        inp = {'text': text, 'depth': depth, 'omit_title': omit, 'filters': fname}
        # TocRenderer keeps the titles as it reads them off the rendered heading, i.e. HTML-escaped; the table of contents re-tokenizes them,
        # which resolves the character references again: what an entry CARRIES is the unescaped text
        got_heads = [[lv, html_mod.unescape(t)] for lv, t in r['headings']]
        if got_heads != exp:
            # the parser does not recognise a setext heading inside a block quote (recorded finding of C04)
            kf = 'kf_setext_in_quote' if sq and got_heads == [e for e in exp if e[1] not in sq] else None
            ctx.failing.append({'interface': 'oracle', 'input': inp, 'what': 'collected headings differ from the qualifying headings in document order',
                                'observed': got_heads, 'expected': exp, 'kf': kf})
            continue
        if not exp:
            if r['toc_type'] == 'IndexError':
                ctx.failing.append({'interface': 'oracle', 'input': inp, 'what': 'toc raises IndexError when no heading qualifies',
                                    'observed': 'IndexError', 'expected': 'an empty table of contents', 'kf': 'kf_toc_empty'})
            continue
        levels = [lv for lv, _ in exp]
        base = min(levels)
        if is_outline(levels, base) and all(title_ok(w) for _, w in exp):
            ctx.count('cases_inside_the_nesting_theorem')
        if is_outline(levels, base):
            want = [(lv - base, w) for lv, w in exp]
            if r['toc'] != want:
                std_base = 2 if omit else 1
                kf = 'kf_toc_indent_base' if base != std_base else None
                ctx.failing.append({'interface': 'oracle', 'input': inp, 'what': 'table of contents is not nested according to heading level',
                                    'observed': [r['toc_type'], r['toc']], 'expected': want, 'kf': kf})
    ctx.cov['outline_sizes'] = {str(k): v for k, v in sorted(dist.items())}
    if ctx.driver_ok:
        mres = core.model_map(reqs)
        for (text, depth, omit, hs), m in zip(meta, mres):
            mh = [[e[0], core.dstr(e[1])] for e in m[0]]
            if mh != hs:
                ctx.disagreements.append({'interface': 'X-toc', 'input': {'text': text, 'depth': depth, 'omit_title': omit},
                                          'model': mh, 'impl': hs})
                continue
            it = toc_trees.get((text, depth, omit))
            if it is not None and hs:
                ctx.count('toc_trees_compared')
                try:
                    mt = trees.undump(m[2][0]) if m[2] else None
                except Exception as ex:
                    mt = 'undecodable model reply: %r' % (ex,)
                if mt != it:
                    ctx.disagreements.append({'interface': 'X-toc(tree)', 'input': {'text': text, 'depth': depth, 'omit_title': omit},
                                              'model': mt, 'impl': it})
    # strip_tags vs re.sub
    alpha = ['<', '>', 'a', '/', '\n', ' ', 'h1', '<em>', '</em>', '&lt;', '<>', '<\n>']
    strs = [''.join(rng.choice(alpha) for _ in range(rng.randint(0, 12))) for _ in range(3000 if ctx.quick() else 50000)]
    with mp.Pool(core.NPROC) as pool:
        sres = pool.map(strip_worker, strs, chunksize=500)
    if ctx.driver_ok:
        mres = core.model_map([[190, s] for s in strs])
        for s, a, b in zip(strs, sres, mres):
            if core.dstr(b) != a:
                ctx.disagreements.append({'interface': 'X-re(strip_tags)', 'input': s, 'model': core.dstr(b), 'impl': a})
    ctx.count('distinct_nontrivial', len(nontriv))
    ctx.sample({'text': jobs[0][1], 'depth': jobs[0][2], 'omit_title': jobs[0][3], 'filters': jobs[0][4], 'headings': res[0].get('headings'), 'toc': res[0].get('toc')})


def replay(ctx, obj):
    run(ctx)
