"""C09 — Markdown round trip: same meaning, idempotent, exact on normal form."""
import multiprocessing as mp
import random
import re

from harness import core, docgen, inputs, trees

GEN = ['gen_tables']
THEOREMS = ['C09_normalize_whitespace_round_trip', 'C09_normalize_whitespace_instance', 'C09_fragment_seq_round_trip', 'C09_plain_lines', 'C09_span_verbatim', 'C09_html_block_verbatim', 'C09_blank_lines_kept', 'C09_definitions_in_place',
            'C09_prefix_lines', 'C09_prefix_count', 'C09_fragment_round_trip', 'C09_fragment_round_trip_text', 'C09_outline_round_trip', 'C09_fragment_round_trip_hypotheses',
            'C09_fragment_round_trip_former_findings']
TRUSTED = ['Model/MarkdownRenderer.v: hand-written model of markdown_renderer.py, tied by X-md (the real renderer vs the extracted model on parsed trees)',
           'the document generator, the finding classifiers (oracle side)']
ASSUMPTIONS = ['unbounded theorem on the fragment of Spec/Fragment.v (one-line plain paragraphs, fenced code, quotes, single-item lists; any size and depth): '
               'parse with the Markdown token sets then render without a line limit is the identity on the spelled text (C09_fragment_round_trip), hence same meaning, '
               'fixed point and exact normal form there, with no side condition: the two the proof first forced (fence not empty, code lines not starting with white '
               'space) were renderer defects, now repaired (fix: 50fc060, 1070095)',
               'the same identity is proved on tight nested bullet lists written one item per line (C09_outline_round_trip; any size, depth, bullet, padding, indentation)',
               'beyond the fragment the three clauses of the property (same meaning, idempotent, exact on normal form) are decided by the oracle on the implementation; '
               'what is proved there is the renderer half (verbatim emission) for all token trees: PARTIAL',
               'input classes recorded as findings are identified by classifiers on the input text / parsed tree; a failing input outside every '
               'class is a new violation']

CHARREF = re.compile(r'&(#[0-9]{1,7}|#[xX][0-9a-fA-F]{1,6}|[A-Za-z][A-Za-z0-9]{1,31});')
ESC_IN_DEST = re.compile(r'(\]\(|\]:)[^\n]*\\')
INDENTED_CONT = re.compile(r'(^|\n)(?:[>\-+*0-9.) ]{0,12})?[^\s>][^\n]*\n(?:> ?)*(?: {4,}|\t)\S')


def walk(w):
    """all nodes of a wire tree"""
    if isinstance(w, list) and w and isinstance(w[0], int) and w[0] in trees.NAMES:
        yield w
        for x in w[1:]:
            if isinstance(x, list):
                for y in x:
                    if isinstance(y, list):
                        yield from walk(y)


def classify(text, w, norm, passes_without_normalize):
    """the recorded finding class an input belongs to (first match), or None"""
    nodes = list(walk(w)) if w is not None else []
    if norm and passes_without_normalize:
        for n in nodes:
            if n[0] == 19 and (n[3] != len(n[1]) + 1 or n[2] != 0):
                return 'kf_md_normalize_list_padding'
    for n in nodes:
        if n[0] == 19 and (not n[5] or n[5][0][0] == 26):
            return 'kf_md_empty_list_item'
    if CHARREF.search(text):
        return 'kf_md_charref'
    if ESC_IN_DEST.search(text):
        return 'kf_md_escape_in_dest'
    if INDENTED_CONT.search(text):
        return 'kf_md_indented_continuation'
    return None


def rt(text, norm):
    from mistletoe import Document
    from mistletoe.html_renderer import HtmlRenderer
    from mistletoe.markdown_renderer import MarkdownRenderer
    with MarkdownRenderer(normalize_whitespace=norm) as r:
        d = Document(text)
        try:
            w = trees.dump(d)
        except trees.DumpError:
            w = None
        md1 = r.render(d)
        md2 = r.render(Document(md1))
    with HtmlRenderer() as h:
        d = Document(text)
        h1, f1 = h.render(d), dict(d.footnotes)
        d = Document(md1)
        h2, f2 = h.render(d), dict(d.footnotes)
    return w, md1, md2, h1, h2, f1, f2


def worker(args):
    text, norm = args
    try:
        w, md1, md2, h1, h2, f1, f2 = rt(text, norm)
    except Exception as e:
        return {'error': '%s: %s' % (type(e).__name__, e)}
    res = {'tree': w, 'md': md1}
    if h1 != h2 or f1 != f2:
        res['fail'] = 'meaning'
        res['obs'] = h2
        res['exp'] = h1
    elif md1 != md2:
        res['fail'] = 'idempotent'
        res['obs'] = md2
        res['exp'] = md1
    if 'fail' in res and norm:
        try:
            _w, a1, a2, b1, b2, g1, g2 = rt(text, False)
            res['passes_without_normalize'] = (b1 == b2 and g1 == g2 and a1 == a2)
        except Exception:
            res['passes_without_normalize'] = False
    return res


def frag_rt_ok(t):
    """the round-trip theorem on the fragment has no side condition any more (two renderer defects repaired)"""
    return True


def frag_worker(args):
    """the trees of the fragment theorem (C09_fragment_round_trip) on the implementation: the round trip is the identity"""
    from harness.props import c03
    seed, depth = args
    rng = random.Random(seed)
    ts = c03.frag_doc(rng, depth)
    text = c03.frag_doc_text(ts)
    if not all(frag_rt_ok(t) for t in ts):
        return text, None, None
    from mistletoe import Document
    from mistletoe.markdown_renderer import MarkdownRenderer
    try:
        with MarkdownRenderer() as r:
            md = r.render(Document(text))
    except Exception as e:
        return text, False, 'EXC %s: %s' % (type(e).__name__, e)
    return text, md == text, md


def outline_rt_worker(seed):
    """the outline lists of C09_outline_round_trip on the implementation: the round trip is the identity"""
    from harness.props import c03
    rng = random.Random(seed)
    forest = c03.outline_forest(rng, rng.randint(0, 4), 3)
    k, b, pad, sub = rng.randint(0, 3), rng.choice('-+*'), rng.randint(1, 4), rng.randint(0, 3)
    text = '\n'.join(c03.outline_spell(forest, k, b, pad, sub)) + '\n'
    from mistletoe import Document
    from mistletoe.markdown_renderer import MarkdownRenderer
    try:
        with MarkdownRenderer() as r:
            md = r.render(Document(text))
    except Exception as e:
        return text, False, 'EXC %s: %s' % (type(e).__name__, e)
    return text, md == text, md


def run(ctx, only=None):
    ctx.cov['rule'] = ('the 652 spec examples and generated documents (every block and inline construct, canonical and non-canonical spellings) x '
                       'normalize_whitespace in {False, True}; non-trivial = the document has at least three lines; distinct = distinct (text, flag)')
    rng = random.Random(ctx.seed)
    n = 2500 if ctx.quick() else 60000
    jobs = []
    for e in inputs.corpus():
        for norm in (False, True):
            jobs.append((e['markdown'], norm, 'spec %d' % e['example']))
    for i in range(n):
        text, _ch = docgen.gen_doc(rng)
        jobs.append((text, i % 2 == 1, 'gen'))
    with mp.Pool(core.NPROC) as pool:
        res = pool.map(worker, [(t, nm) for t, nm, _s in jobs], chunksize=20)
    reqs, meta = [], []
    nontriv = set()
    kf_count = {}
    for (text, norm, src), r in zip(jobs, res):
        ctx.count('evaluations')
        if 'error' in r:
            ctx.failing.append({'interface': 'oracle', 'input': {'text': text, 'normalize_whitespace': norm, 'source': src},
                                'what': 'round trip raised ' + r['error'], 'kf': None})
            continue
        if text.count('\n') >= 3:
            nontriv.add((text, norm))
        if r['tree'] is not None:
            reqs.append([9, norm, [], r['tree']])
            meta.append((text, norm, r['md']))
        if 'fail' in r:
            kf = classify(text, r['tree'], norm, r.get('passes_without_normalize', False))
            kf_count[kf] = kf_count.get(kf, 0) + 1
            what = {'meaning': 'the rendered Markdown does not parse to the same document (HTML or link definitions differ)',
                    'idempotent': 'rendering the rendered Markdown again changes it'}[r['fail']]
            ctx.failing.append({'interface': 'oracle', 'input': {'text': text, 'normalize_whitespace': norm, 'source': src},
                                'what': what, 'observed': r['obs'], 'expected': r['exp'], 'kf': kf})
    ctx.cov['failing_inputs_by_recorded_class'] = {str(k): v for k, v in kf_count.items()}
    if ctx.driver_ok:
        mres = core.model_map(reqs)
        for (text, norm, md), m in zip(meta, mres):
            if core.dstr(m) != md:
                ctx.disagreements.append({'interface': 'X-md', 'input': {'text': text, 'normalize_whitespace': norm}, 'model': core.dstr(m), 'impl': md})
    # the fragment of the unbounded theorem, on the implementation
    nf = 1500 if ctx.quick() else 40000
    with mp.Pool(core.NPROC) as pool:
        fres = pool.map(frag_worker, [(ctx.seed * 1000003 + i, 1 + i % 5) for i in range(nf)], chunksize=50)
    skipped = 0
    for text, ok, md in fres:
        ctx.count('evaluations')
        if ok is None:
            skipped += 1
            continue
        if text.count('\n') >= 3:
            nontriv.add((text, False))
        if not ok:
            ctx.failing.append({'interface': 'oracle', 'input': {'text': text, 'normalize_whitespace': False, 'source': 'fragment'},
                                'what': 'a document of the fragment (C09_fragment_round_trip) is not reproduced byte for byte',
                                'observed': md, 'expected': text, 'kf': None})
    ctx.cov['fragment_stream'] = {'trees': nf, 'outside_rt_ok_skipped': skipped, 'max_depth': 5}
    no = 800 if ctx.quick() else 20000
    with mp.Pool(core.NPROC) as pool:
        ores = pool.map(outline_rt_worker, [ctx.seed * 7919 + i for i in range(no)], chunksize=50)
    for text, ok, md in ores:
        ctx.count('evaluations')
        if text.count('\n') >= 3:
            nontriv.add((text, False))
        if not ok:
            ctx.failing.append({'interface': 'oracle', 'input': {'text': text, 'normalize_whitespace': False, 'source': 'outline'},
                                'what': 'a tight nested bullet list (C09_outline_round_trip) is not reproduced byte for byte',
                                'observed': md, 'expected': text, 'kf': None})
    ctx.cov['outline_stream'] = {'forests': no}
    ctx.count('distinct_nontrivial', len(nontriv))
    ctx.sample({'text': jobs[1400][0], 'normalize_whitespace': jobs[1400][1], 'markdown': res[1400].get('md')})


def replay(ctx, obj):
    run(ctx)
