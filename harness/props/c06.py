"""C06 — emphasis nesting equals the specification's delimiter-run algorithm."""
import itertools
import multiprocessing as mp
import random
import re

from harness import core

GEN = ['gen_tables', 'gen_regex', 'gen_config', 'gen_core']
THEOREMS = ['C06_emphasis_above_a_bracket', 'C06_link_with_emphasis', 'C06_nested_emphasis', 'C06_nested_pairs', 'C06_nested_emphasis_instance', 'C06_emphasis_phrases', 'C06_sequential_pairs', 'C06_emphasis_phrases_hypotheses', 'C06_emphasis_sound', 'C06_process_emphasis_sound', 'C06_emphasis_sound_hypotheses', 'C06_flanking_is_the_source', 'C06_simple_emphasis', 'C06_simple_emphasis_hypotheses', 'C06_emphasis_in_sentence', 'C06_emphasis_in_sentence_hypotheses', 'C06_tables', 'C06_flanking', 'C06_closed_by', 'C06_bounded_alpha5_7', 'C06_bounded_star_under_12']
TRUSTED = ['Spec/Delims.v: the CommonMark 0.30 delimiter algorithm written from the specification appendix (the yardstick)',
           'the model of core_tokens.py / span_tokenizer.py (tied by X-doc and X-inline)',
           'vm_compute for the kernel sweeps (33 shard files)']
ASSUMPTIONS = ['in-kernel equality model = specification covers strings over {a,space,*,_,.} up to length 7 and over {a,*}, {a,_} up to length 12; '
               'length 8 (10 in the thorough tier) and lengths 13-14 are covered by comparing the IMPLEMENTATION with the extracted specification '
               'exhaustively; random wide-alphabet strings up to length 40 by the same comparison']


def impl_emph(texts):
    """the <em>/<strong> structure the implementation produces for inline text"""
    from mistletoe import span_token, token
    from mistletoe.html_renderer import HtmlRenderer
    out = []
    with HtmlRenderer() as r:
        root = type('D', (), {})()
        root.footnotes = {}

        def ren(t):
            nm = type(t).__name__
            if nm == 'RawText':
                return t.content
            if nm == 'Emphasis':
                return '<em>' + ''.join(ren(c) for c in t.children) + '</em>'
            if nm == 'Strong':
                return '<strong>' + ''.join(ren(c) for c in t.children) + '</strong>'
            return '<?%s>' % nm
        for s in texts:
            token._root_node = root
            try:
                out.append(''.join(ren(t) for t in span_token.tokenize_inner(s)))
            except Exception as e:
                out.append('EXC %s: %s' % (type(e).__name__, e))
            finally:
                token._root_node = None
    return out


def heading_emph(texts):
    from mistletoe import Document
    from mistletoe.html_renderer import HtmlRenderer
    out = []
    for s in texts:
        try:
            with HtmlRenderer() as r:
                h = r.render(Document('# ' + s))
            m = re.fullmatch(r'<h1>(.*)</h1>\n', h, re.S)
            out.append(m.group(1) if m else 'NOH1 ' + h)
        except Exception as e:
            out.append('EXC %s: %s' % (type(e).__name__, e))
    return out


def chunks(l, n):
    return [l[i:i + n] for i in range(0, len(l), n)]


def all_strings(alpha, lo, hi):
    for n in range(lo, hi + 1):
        for t in itertools.product(alpha, repeat=n):
            yield ''.join(t)


def compare(ctx, texts, label, via_heading=False):
    with mp.Pool(core.NPROC) as pool:
        got = [x for part in pool.map(heading_emph if via_heading else impl_emph, chunks(texts, 4000)) for x in part]
    spec = core.model_map([[60, s] for s in texts]) if ctx.driver_ok else [None] * len(texts)
    for s, g, sp in zip(texts, got, spec):
        ctx.count('evaluations')
        ctx.count('strings_' + label)
        if sp is None:
            continue
        e = core.dstr(sp)
        if via_heading:
            import html
            e = html.escape(e, quote=False).replace('&lt;em&gt;', '<em>').replace('&lt;/em&gt;', '</em>') \
                .replace('&lt;strong&gt;', '<strong>').replace('&lt;/strong&gt;', '</strong>')
        if g != e:
            what = 'the inline parser failed' if g.startswith('EXC') else 'emphasis nesting differs from the specification\'s delimiter algorithm'
            ctx.failing.append({'interface': 'oracle(%s)' % label, 'input': {'text': s}, 'what': what, 'observed': g, 'expected': e, 'kf': None})


def run(ctx, only=None):
    ctx.cov['rule'] = ('exhaustive: all strings over {a,space,*,_,.} up to length %d and over {a,*}, {a,_} up to length 14, implementation vs the '
                       'extracted specification algorithm; random strings up to length 40 over a wide alphabet; non-trivial = the string has at '
                       'least two delimiter runs; distinct = distinct strings' % (8 if ctx.quick() else 10))
    rng = random.Random(ctx.seed)
    corpus = ['**_*_*', '*a***a*', '**a****b*', '*foo**bar**baz*', '__foo_ bar_', '*(**foo**)*', 'foo***bar***baz', '***foo** bar*']
    compare(ctx, corpus, 'corpus')
    n5 = 8 if ctx.quick() else 9
    texts = list(all_strings('a *_.', 1, n5))
    for part in chunks(texts, 200000):
        compare(ctx, part, 'alpha5_up_to_%d' % n5)
    compare(ctx, list(all_strings('a*', 1, 14)), 'a_star_up_to_14')
    compare(ctx, list(all_strings('a_', 1, 14)), 'a_underscore_up_to_14')
    ctx.cov['exhaustive'] = True
    # through the whole pipeline ('# ' + text), strings that survive heading parsing unchanged
    hs = [s for s in all_strings('a *_.', 1, 6) if s[0] != ' ' and s[-1] != ' ' and not s.endswith('#')]
    compare(ctx, hs, 'via_heading_up_to_6', via_heading=True)
    wide = list('ab *_') + ['**', '__', '.', ',', '!', '(', ')', '"', ' ', '　', '\t', '1', '9', '¡', '«', '»', '—', 'é', '中', '-', "'"]
    rnd = [''.join(rng.choice(wide) for _ in range(rng.randint(1, 40))) for _ in range(20000 if ctx.quick() else 300000)]
    compare(ctx, rnd, 'random_wide')
    # the class of the unbounded theorem C06_simple_emphasis: one pair of delimiter runs around plain text of any length
    pieces = ['a', 'Zed', 'x1', 'é', '中', 'two words', 'q, r', 'a-b', 'c+d', 'e=f', '2.5', 'end', 'h% i', 'j? k', 'l:m', 'n;o', "p'q", 'r"s', '(t) u', 'v/w']
    simple, want = [], []
    for _ in range(4000 if ctx.quick() else 60000):
        w = ' '.join(rng.choice(pieces) for _ in range(rng.randint(1, 12)))
        if not (w[0].isalnum() and w[-1].isalnum()):
            continue
        ch, dbl = rng.choice('*_'), rng.random() < 0.5
        run_ = ch * (2 if dbl else 1)
        simple.append(run_ + w + run_)
        want.append(('<strong>%s</strong>' if dbl else '<em>%s</em>') % w)
    with mp.Pool(core.NPROC) as pool:
        got = [x for part in pool.map(impl_emph, chunks(simple, 2000)) for x in part]
    for t_, g, e in zip(simple, got, want):
        ctx.count('evaluations')
        ctx.count('strings_simple_emphasis')
        if g != e:
            ctx.failing.append({'interface': 'oracle(simple emphasis)', 'input': {'text': t_}, 'what': 'one pair of delimiter runs around plain text is not one emphasis',
                                'observed': g, 'expected': e, 'kf': None})
    compare(ctx, simple[:2000], 'simple_emphasis_vs_spec')
    # the class of C06_emphasis_in_sentence: the same pair of runs with plain text before and after it
    befores = ['', ' ', 'see ', 'a, ', '(', 'it is (', 'x: ', '"', 'one two. ', 'é — ', 'tab\t', '中。', 'n-']
    afters = ['', ' ', ' more', '.', ', and', ')', ') then', ': y', '"', '; z', '?', ' — é', '\tq', '。中', '-n']
    sent, want = [], []
    for _ in range(4000 if ctx.quick() else 60000):
        w = ' '.join(rng.choice(pieces) for _ in range(rng.randint(1, 8)))
        if not (w[0].isalnum() and w[-1].isalnum()):
            continue
        ch, dbl = rng.choice('*_'), rng.random() < 0.5
        run_ = ch * (2 if dbl else 1)
        pre = ''.join(rng.choice(pieces) + ' ' for _ in range(rng.randint(0, 4))) + rng.choice(befores)
        post = rng.choice(afters) + ''.join(' ' + rng.choice(pieces) for _ in range(rng.randint(0, 4)))
        sent.append(pre + run_ + w + run_ + post)
        want.append(pre + (('<strong>%s</strong>' if dbl else '<em>%s</em>') % w) + post)
    with mp.Pool(core.NPROC) as pool:
        got = [x for part in pool.map(impl_emph, chunks(sent, 2000)) for x in part]
    for t_, g, e in zip(sent, got, want):
        ctx.count('evaluations')
        ctx.count('strings_emphasis_in_sentence')
        if g != e:
            ctx.failing.append({'interface': 'oracle(emphasis in a sentence)', 'input': {'text': t_},
                                'what': 'one pair of delimiter runs inside plain text is not plain text, one emphasis, plain text',
                                'observed': g, 'expected': e, 'kf': None})
    compare(ctx, sent[:2000], 'emphasis_in_sentence_vs_spec')
    # the class of C06_emphasis_phrases: ANY NUMBER of such phrases, each followed by a non-empty stretch of plain text that begins and ends with white space or punctuation
    seps = [' ', ' and ', ', ', '. Then ', ' (', ') ', ': "', '" ', ' — ', '.', ' x y, ', '; ', '\t', ' é — ']
    many, want = [], []
    for _ in range(4000 if ctx.quick() else 60000):
        t0 = rng.choice(['', 'Say ', 'x: ', '(', 'one two. ', '中。', '"'])
        text, exp = t0, t0
        for _i in range(rng.randint(2, 6)):
            w = ' '.join(rng.choice(pieces) for _ in range(rng.randint(1, 4)))
            if not (w[0].isalnum() and w[-1].isalnum()):
                w = 'w'
            ch, dbl = rng.choice('*_'), rng.random() < 0.5
            run_ = ch * (2 if dbl else 1)
            t = rng.choice(seps)
            text += run_ + w + run_ + t
            exp += (('<strong>%s</strong>' if dbl else '<em>%s</em>') % w) + t
        many.append(text)
        want.append(exp)
    with mp.Pool(core.NPROC) as pool:
        got = [x for part in pool.map(impl_emph, chunks(many, 2000)) for x in part]
    for t_, g, e in zip(many, got, want):
        ctx.count('evaluations')
        ctx.count('strings_emphasis_phrases')
        if g != e:
            ctx.failing.append({'interface': 'oracle(emphasis phrases)', 'input': {'text': t_},
                                'what': 'a sentence of several emphasised phrases separated by plain text is not plain text and one emphasis per phrase, in order',
                                'observed': g, 'expected': e, 'kf': None})
    compare(ctx, many[:2000], 'emphasis_phrases_vs_spec')
    # the class of C06_nested_emphasis: an emphasised phrase holding a sentence of such phrases
    nested, nwant = [], []
    for _ in range(3000 if ctx.quick() else 40000):
        def word():
            w = ' '.join(rng.choice(pieces) for _ in range(rng.randint(1, 3)))
            return w if (w[0].isalnum() and w[-1].isalnum()) else 'w'
        pre = rng.choice(['', 'Say ', 'x: ', '(', 'one two. ', '"'])
        post = rng.choice(['', '.', ' end', ', then', ')', '" ok', '; z'])
        och, odbl = rng.choice('*_'), rng.random() < 0.5
        orun, otag = och * (2 if odbl else 1), ('strong' if odbl else 'em')
        h = word() + rng.choice([' ', ', ', ': ', ' ('])
        body, bexp = '', ''
        for _i in range(rng.randint(0, 4)):
            w = word()
            ch, dbl = rng.choice('*_'), rng.random() < 0.5
            run_ = ch * (2 if dbl else 1)
            t = rng.choice(seps)
            body += run_ + w + run_ + t
            bexp += (('<strong>%s</strong>' if dbl else '<em>%s</em>') % w) + t
        z = word()
        nested.append(pre + orun + h + body + z + orun + post)
        nwant.append(pre + '<%s>' % otag + h + bexp + z + '</%s>' % otag + post)
    with mp.Pool(core.NPROC) as pool:
        got = [x for part in pool.map(impl_emph, chunks(nested, 2000)) for x in part]
    for t_, g, e in zip(nested, got, nwant):
        ctx.count('evaluations')
        ctx.count('strings_nested_emphasis')
        if g != e:
            ctx.failing.append({'interface': 'oracle(nested emphasis)', 'input': {'text': t_},
                                'what': 'an emphasised phrase holding emphasised phrases is not one emphasis around the text and the inner phrases',
                                'observed': g, 'expected': e, 'kf': None})
    compare(ctx, nested[:1500], 'nested_emphasis_vs_spec')
    ctx.count('distinct_nontrivial', sum(1 for s in texts if len(re.findall(r'\*+|_+', s)) >= 2))
    ctx.sample({'text': '*a **b c** d*', 'implementation': impl_emph(['*a **b c** d*'])[0]})


def replay(ctx, obj):
    inp = obj.get('input') or {}
    if 'text' in inp:
        compare(ctx, [inp['text']], 'replay')
    else:
        run(ctx)
