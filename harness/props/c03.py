"""C03 — documents built from Markdown constructs parse to the tree they were built from."""
import multiprocessing as mp
import random

from harness import core, htmlnorm, treegen, xdoc

GEN = ['gen_tables', 'gen_regex', 'gen_config', 'gen_escapes']
THEOREMS = ['C03_bounded_trees', 'C03_family_is_not_vacuous']
TRUSTED = ['harness/treegen.py: the tree grammar, the speller (every free choice drawn and counted) and the direct HTML writer - the independent oracle; '
           'harness/htmlnorm.py: CommonMark\'s test normalisation',
           'Spec/Spell.v: the Coq twin of the grammar for the kernel sweep (independent of the parser model)',
           'the pipeline model (tied by X-doc on the generated texts); vm_compute for the sweep']
ASSUMPTIONS = ['PARTIAL: in the kernel the statement is bounded to the family stated in C03_bounded_trees; the full grammar is sampled on the implementation',
               'tables: default and left alignment are one value of the tree (the renderer writes align="left" for both); empty table bodies are not generated',
               'two streams exercise recorded findings only: setext headings inside quotes (kf_setext_in_quote) and a lazy continuation line after a quoted line '
               'indented four or more spaces (kf_lazy_after_indented_line); a failure there is a known finding only if the same tree passes when respelled '
               'without the trigger']


def render(text):
    import mistletoe
    from mistletoe.html_renderer import HtmlRenderer
    try:
        with HtmlRenderer() as r:
            return r.render(mistletoe.Document(text))
    except Exception as e:
        return 'EXC %s: %s' % (type(e).__name__, e)


def same(got, want):
    try:
        return htmlnorm.normalize(got) == htmlnorm.normalize(want)
    except Exception:
        return False


def worker(args):
    seed, stream, depth, nspell = args
    rng = random.Random(seed)
    tree, defs, want, counts = treegen.draw(rng, max_depth=depth, setext_in_quote=(stream == 'setext_in_quote'))
    out = []
    blocks = 0
    for j in range(nspell):
        sp = treegen.Speller(rng, lazy_after_indented=(stream == 'lazy_after_indented'))
        text = sp.document(tree)
        got = render(text)
        ok = same(got, want)
        kf = None
        if not ok:
            if stream == 'setext_in_quote' and treegen.has_setext_in_quote(tree):
                alt = treegen.Speller(random.Random(seed + j + 1), atx_for_setext_in_quote=True).document(tree)
                if same(render(alt), want):
                    kf = 'kf_setext_in_quote'
            elif stream == 'lazy_after_indented' and sp.used_lazy_after_indented:
                alt = treegen.Speller(random.Random(seed + j + 1), lazy=False).document(tree)
                if same(render(alt), want):
                    kf = 'kf_lazy_after_indented_line'
        out.append((text, ok, kf, None if ok else got, sp.choices))
        blocks = max(blocks, text.count('\n'))
    return tree, want, counts, out


def run(ctx, only=None):
    ctx.cov['rule'] = ('trees drawn from the seeded grammar of harness/treegen.py (depth up to 4; paragraphs, ATX/setext headings, breaks, fenced/indented code, '
                       'quotes, tight/loose bullet/ordered lists, tables, HTML blocks, link definitions; all inline constructs) x 3 spellings each (markers, '
                       'indent 0-3, padding 1-4, fences, closing #, > with/without space, lazy lines, optional blank lines, definition placement); equivalence = '
                       'CommonMark test normalisation; non-trivial = the tree has a container; distinct = distinct spelled texts')
    rng = random.Random(ctx.seed)
    n = 1500 if ctx.quick() else 40000
    jobs = []
    for i in range(n):
        stream = 'main' if i % 10 < 8 else ('setext_in_quote' if i % 10 == 8 else 'lazy_after_indented')
        jobs.append((rng.randint(0, 2 ** 40), stream, 4 if i % 3 == 0 else 3, 3))
    with mp.Pool(core.NPROC) as pool:
        res = pool.map(worker, jobs, chunksize=20)
    choices = {}
    blocks = {}
    nontriv = 0
    texts = []
    seen = set()
    for (seed, stream, depth, _), (tree, want, counts, out) in zip(jobs, res):
        for k, v in counts.items():
            blocks[k] = blocks.get(k, 0) + v
        for (text, ok, kf, got, ch) in out:
            if text in seen:
                continue
            seen.add(text)
            ctx.count('evaluations')
            ctx.count('stream_' + stream)
            for k, v in ch.items():
                choices[k] = choices.get(k, 0) + v
            if any(b[0] in ('quote', 'list') for b in tree):
                nontriv += 1
            if len(texts) < (1200 if ctx.quick() else 25000):
                texts.append(text)
            if not ok:
                what = {'kf_setext_in_quote': 'a setext heading inside a block quote is not recognised (Quote.read switches setext parsing off)',
                        'kf_lazy_after_indented_line': 'a lazy continuation line is refused after a quoted line indented four or more spaces (Quote.read takes it for indented code)',
                        None: 'the rendered HTML is not equivalent to the HTML written from the tree'}[kf]
                ctx.failing.append({'interface': 'oracle(tree)', 'input': {'text': text, 'seed': seed, 'stream': stream, 'depth': depth},
                                    'what': what, 'observed': got, 'expected': want, 'kf': kf})
    ctx.cov['constructs_drawn'] = blocks
    ctx.cov['spelling_choices_taken'] = choices
    ctx.count('distinct_nontrivial', nontriv)
    ctx.sample({'text': res[0][3][0][0], 'expected_html': res[0][1]})
    xdoc.run(ctx, texts, cfgs=(0,))


def replay(ctx, obj):
    inp = obj.get('input') or {}
    if isinstance(inp, dict) and 'seed' in inp:
        tree, want, counts, out = worker((inp['seed'], inp['stream'], inp['depth'], 3))
        for (text, ok, kf, got, ch) in out:
            ctx.count('evaluations')
            if not ok:
                ctx.failing.append({'interface': 'oracle(replay)', 'input': dict(inp, text=text), 'what': 'the rendered HTML is not equivalent to the HTML written from the tree',
                                    'observed': got, 'expected': want, 'kf': kf})
    else:
        run(ctx)
