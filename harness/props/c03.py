"""C03 — documents built from Markdown constructs parse to the tree they were built from."""
import html as html_mod
import multiprocessing as mp
import os
import random
import re

from harness import core, htmlnorm, treegen, trees, xdoc

GEN = ['gen_tables', 'gen_regex', 'gen_config', 'gen_escapes', 'gen_core']
THEOREMS = ['C03_html_span_in_sentence', 'C03_html_tag_without_html_spans', 'C03_html_span_hypotheses', 'C03_link_with_emphasis', 'C03_link_with_emphasis_instance', 'C03_angle_link_in_sentence', 'C03_angle_link_instance', 'C03_fragment_autolink_instance', 'C03_autolink_in_sentence', 'C03_autolink_hypotheses', 'C03_titled_link_in_sentence', 'C03_titled_link_instance', 'C03_fragment_nested_emphasis_instance', 'C03_backslash_break', 'C03_backslash_break_hypotheses', 'C03_one_in_sentence', 'C03_fragment_one_instance', 'C03_fragment_breaks_instance', 'C03_breaks_in_paragraph_text', 'C03_breaks_instance', 'C03_image_in_sentence', 'C03_strike_in_sentence', 'C03_strike_in_sentence_hypotheses', 'C03_escape_in_sentence', 'C03_escape_in_sentence_hypotheses', 'C03_code_in_sentence', 'C03_code_in_sentence_hypotheses', 'C03_fragment_code_instance', 'C03_fragment_sentence_instance', 'C03_mixed_phrases', 'C03_mixed_phrases_instance', 'C03_link_phrases', 'C03_link_phrases_instance', 'C03_link_in_sentence', 'C03_fragment_link_instance', 'C03_fragment_seq_document', 'C03_fragment_seq_html', 'C03_fragment_lists_instance', 'C03_fragment_inert_instance', 'C03_fragment_emphasis_instance', 'C03_fragment_rules_instance', 'C03_thematic_break', 'C03_thematic_configs', 'C03_setext_heading', 'C03_setext_hypotheses', 'C03_indented_code_block', 'C03_indented_code_hypotheses', 'C03_link_scanners_are_the_source', 'C03_fragment_parses', 'C03_fragment_token_tree', 'C03_fragment_hypotheses', 'C03_fragment_fuel_suffices', 'C03_fragment_document',
            'C03_fragment_html', 'C03_fragment_markdown_html', 'C03_fragment_html_instance', 'C03_fragment_paragraph_lines_instance', 'C03_fragment_headings_instance', 'C03_outline_lists', 'C03_outline_html', 'C03_outline_instance',
            'C03_fragment_document_markdown', 'C03_fragment_document_configs', 'C03_bounded_trees', 'C03_family_is_not_vacuous']
TRUSTED = ['harness/treegen.py: the tree grammar, the speller (every free choice drawn and counted) and the direct HTML writer - the independent oracle; '
           'harness/htmlnorm.py: CommonMark\'s test normalisation',
           'Spec/Spell.v: the Coq twin of the grammar for the kernel sweep (independent of the parser model)',
           'the pipeline model (tied by X-doc on the generated texts); vm_compute for the sweep']
ASSUMPTIONS = ['unbounded theorem on a fragment: paragraphs of one or more lines (inert delimiters; lines ending in spaces), one-line paragraphs with inline markup (emphasised phrases and links mixed, a code span, strikethrough, escape, image, link with a title (in double quotes, single quotes or parentheses), link with its destination between angle brackets, link whose text holds emphasised phrases, nested emphasis), ATX headings, thematic breaks, fenced code blocks, quotes and lists of one or more items (all markers, padding 1-4), any size and depth, '
               'two lists never adjacent siblings: the block tokenizer returns exactly the pre-token tree written from the tree (C03_fragment_parses), and Document(lines) - with the fuel it really gives, proved sufficient - holds exactly the token tree written from the tree under every renderer\'s token sets (C03_fragment_document, _markdown), and the HTML renderer model writes for it exactly the HTML written directly from the tree, also when the text is one string (C03_fragment_html, C03_fragment_markdown_html); the fragment '
               'stream runs the same trees on the implementation',
               'PARTIAL beyond the fragment: in the kernel the HTML statement is bounded to the family stated in C03_bounded_trees; the full grammar is sampled on the implementation',
               'tables: default and left alignment are one value of the tree (the renderer writes align="left" for both); empty table bodies are not generated',
               'two streams exercise recorded findings only: setext headings inside quotes (kf_setext_in_quote) and a lazy continuation line after a quoted line '
               'indented four or more spaces (kf_lazy_after_indented_line); a failure there is a known finding only if the same tree passes when respelled '
               'without the trigger']


def render(text):
    import mistletoe
    from mistletoe.html_renderer import HtmlRenderer
    try:
        with HtmlRenderer() as r:
            return r.render(mistletoe.Document(text))
    except Exception as e:
        return 'EXC %s: %s' % (type(e).__name__, e)


def same(got, want):
    try:
        return htmlnorm.normalize(got) == htmlnorm.normalize(want)
    except Exception:
        return False


def worker(args):
    seed, stream, depth, nspell = args
    rng = random.Random(seed)
    tree, defs, want, counts = treegen.draw(rng, max_depth=depth, setext_in_quote=(stream == 'setext_in_quote'))
    out = []
    blocks = 0
    for j in range(nspell):
        sp = treegen.Speller(rng, lazy_after_indented=(stream == 'lazy_after_indented'))
        text = sp.document(tree)
        got = render(text)
        ok = same(got, want)
        kf = None
        if not ok:
            if stream == 'setext_in_quote' and treegen.has_setext_in_quote(tree):
                alt = treegen.Speller(random.Random(seed + j + 1), atx_for_setext_in_quote=True).document(tree)
                if same(render(alt), want):
                    kf = 'kf_setext_in_quote'
            elif stream == 'lazy_after_indented' and sp.used_lazy_after_indented:
                alt = treegen.Speller(random.Random(seed + j + 1), lazy=False).document(tree)
                if same(render(alt), want):
                    kf = 'kf_lazy_after_indented_line'
        out.append((text, ok, kf, None if ok else got, sp.choices))
        blocks = max(blocks, text.count('\n'))
    return tree, want, counts, out


FRAG_WORDS = ['alpha', 'b', 'Zed', 'x1', 'end.', 'q)', '(r', 'a-b', 'c+d', 'e=f', '#g', 'h%', '@i', 'j?', 'k,', '"l"', "m'", 'n:', 'o;', '}', '^', '/p', '2.5', '-', '+', '=', '>', '#', '1.', '7)']
FRAG_FIRST = [w for w in FRAG_WORDS if w[0] not in '#*+-0123456789<>[_`~']
FRAG_CONT = [w for w in FRAG_FIRST if w[0] != '=']
FRAG_HEAD = [w for w in FRAG_WORDS if '#' not in w]


# words with delimiters that can neither open nor close anything where they stand (leaf FPara: inert_para_b of Proofs/InertProse.v)
FRAG_INERT = ['*', '**', '_', '__', '*open', '**open', '_open', '__open', '[', '![', ']', '[x]', '![y]', 'f(x)[i]', '2 * 3', 'a_b', 'snake_case', '(*', '(_', '.*',
              '[1]', '[^n]', '] [', '!', '!x', 'AT&T', '&', 'a&b', '&amp', 'x](y', 'a*', 'b_', '*)']


def frag_inert(lines):
    """inert_para_b, decided independently of the model: no backslash, backtick, ~, <, $, {, |; no "](" ; not both & and ; ; no run of * or _ that can close"""
    from . import c14
    s = '\n'.join(lines)
    if any(c in s for c in '\\`~<${|') or '](' in s or ('&' in s and ';' in s):
        return False
    return not any(c14.run_is_closer(s, m.start(), m.end()) for m in re.finditer(r'\*+|_+', s))


EM_WORDS = ['alpha', 'b', 'Zed', 'x1', 'end.', 'q)', '(r', 'a-b', 'c+d', 'e=f', 'k,', '"l"', "m'", 'n:', 'o;', '2.5']
EM_INNER = ['this', 'Zed', 'x1', 'two', 'a-b', 'q, r', '2.5', 'é', '中']
SENT_SEPS = [' and ', ', ', '. Then ', ' (', ') ', ': "', '" ', '.', ' x y, ', '; ', ' ']
LINK_DESTS = ['http://ex.am/a_b*c?d=e#f', '/p/q.html', 'x', '#frag', '../rel?a=b+c', 'mailto:me@ex.am', 'ftp://h/%20x', 'é/中', 'a[1]', 'x_y_z', '*']
# the content of a code span (leaf FTick, C03_code_in_sentence): any characters but backticks and the characters a regex span finder needs
CODE_SPANS = ['x', 'f(*a, **b)', '_x_', '*a*', '**b**', '[x](y)', '![i](u)', 'a[0]', ' x ', '  ', ' ', 'a  b', ' lead', 'trail ', 'x > y', '"q"', "'s'", 'é中', ']', '[',
              '__init__', '1 * 2 * 3', ' a b ', 'a>b', '*', '_', '](', '#', '- x', ' * ', 'a]b[c', '   x   ']
FRAG_CODE = ['code', '  x = 1', '', '# not a heading', '- not a list', '> not a quote', '    deep', '*a*', '<b>', '| a |', '[x]: /y', 'a  b  ']


def frag_tree(rng, depth):
    r = rng.random()
    if depth == 0 or r < 0.4:
        if rng.random() < 0.25:
            ch = rng.choice('`~')
            body = [l for l in (rng.choice(FRAG_CODE) for _ in range(rng.randint(0, 4))) if not l.lstrip(' ').startswith(ch) and (l == '' or l.strip(' '))]
            return ('f', ch * rng.randint(3, 5), body)
        if rng.random() < 0.15:                              # a one-line paragraph with one emphasised phrase (leaf FEm)
            pre = ' '.join([rng.choice(FRAG_FIRST)] + [rng.choice(EM_WORDS) for _ in range(rng.randint(0, 3))]) + rng.choice([' ', ' (', ', ', ': "'])
            w = ' '.join(rng.choice(EM_INNER) for _ in range(rng.randint(1, 3)))
            post = rng.choice(['', '.', ' end', ', then more', ')', '" ok', '; z', '!x'.replace('!', '?')])
            return ('e', pre, rng.choice('*_') * rng.choice([1, 2]), w, post)
        if rng.random() < 0.15:                              # a one-line paragraph mixing emphasised phrases and links (leaf FSent)
            t0 = ' '.join([rng.choice(FRAG_FIRST)] + [rng.choice(EM_WORDS) for _ in range(rng.randint(0, 2))]) + rng.choice([' ', ' (', ', ', ': "'])
            segs = []
            for _i in range(rng.randint(1, 4)):
                w = ' '.join(rng.choice(EM_INNER) for _ in range(rng.randint(1, 3)))
                if rng.random() < 0.5:
                    segs.append(('em', rng.choice('*_'), rng.choice([1, 2]), w, rng.choice(SENT_SEPS)))
                else:
                    segs.append(('lk', w, rng.choice(LINK_DESTS), rng.choice(SENT_SEPS + ['', ''])))
            # the text after the last segment: it too begins and ends with white space or punctuation (the theorem asks it of every segment), and the line must not end with white space
            segs[-1] = segs[-1][:-1] + (rng.choice(['.', ') .', ', x.', '"', '; ok.'] + ([''] if segs[-1][0] == 'lk' else [])),)
            return ('s', t0, segs)
        if rng.random() < 0.12:                              # a one-line paragraph with a struck-through phrase, a backslash escape or an image (leaf FOne)
            pre = ' '.join([rng.choice(FRAG_FIRST)] + [rng.choice(EM_WORDS) for _ in range(rng.randint(0, 3))]) + rng.choice([' ', ' (', ', ', ': "', ''])
            post = rng.choice(['', '.', ' end', ', then more', ')', '" ok', '; z', '?x', 's'])
            kind = rng.choice(['strike', 'esc', 'img', 'nest', 'tlink', 'auto', 'alink', 'elink'])
            w = ' '.join(rng.choice(EM_INNER) for _ in range(rng.randint(1, 3)))
            x = ('strike', w) if kind == 'strike' else ('esc', rng.choice('!"#%\'()*+,-./:;=>?@[\\]^_}')) if kind == 'esc' else ('img', w, rng.choice(LINK_DESTS)) if kind == 'img' else _tlink(rng, w) if kind == 'tlink' else ('alink', w, rng.choice(ANGLE_DESTS)) if kind == 'alink' else ('auto', rng.choice(['http', 'https', 'ftp', 'mailto', 'x-1', 'a0']), rng.choice(['//ex.am/a-b?c=d#e', '//user@host.ex/p', 'me@ex.am', '//h', '', '/p/q.html', '//é.ex/中', 'a+b,c;d'])) if kind == 'auto' else None
            if kind == 'nest':          # an emphasised phrase holding emphasised phrases: (char, run length, text before, phrases, text after)
                aw = lambda: ' '.join(rng.choice([x_ for x_ in EM_INNER if x_[0].isalnum() and x_[-1].isalnum()]) for _ in range(rng.randint(1, 2)))
                phs = [(rng.choice('*_'), rng.choice([1, 2]), aw(), rng.choice([' and ', ', ', '. Then ', ' (', ') ', ': "', '" ', ' '])) for _ in range(rng.randint(0, 3))]
                x = ('nest', rng.choice('*_'), rng.choice([1, 2]), aw() + rng.choice([' ', ', ', ': ', ' (']), phs, aw())
                pre = pre if (pre[-1] in ' ("') else pre + ' '
                post = post if (post == '' or post[0] in ' .,);"?') else ''
            if kind == 'elink':         # a link whose text holds emphasised phrases: (text before, phrases each with the text after it, text after, destination)
                aw = lambda: ' '.join(rng.choice([x_ for x_ in EM_INNER if x_[0].isalnum() and x_[-1].isalnum()]) for _ in range(rng.randint(1, 2)))
                phs = [(rng.choice('*_'), rng.choice([1, 2]), aw(), rng.choice([' and ', ', ', '. Then ', ' (', ') ', ': "', '" ', ' ', '.'])) for _ in range(rng.randint(1, 3))]
                x = ('elink', rng.choice(['', aw() + rng.choice([' ', ', ', ': ', ' ('])]), phs, rng.choice(['', aw()]), rng.choice(LINK_DESTS))
            return ('o', pre, x, post)
        if rng.random() < 0.12:                              # a paragraph whose lines are followed by any number of spaces (leaf FBrk)
            lines = [' '.join([rng.choice(FRAG_FIRST if i == 0 else FRAG_CONT)] + [rng.choice(EM_WORDS + EM_INNER) for _ in range(rng.randint(0, 3))]) for i in range(rng.randint(2, 4))]
            return ('b', [(l, rng.choice([0, 0, 1, 2, 2, 3, 6])) for l in lines[:-1]] + [(lines[-1], 0)])
        if rng.random() < 0.12:                              # a one-line paragraph with one code span (leaf FTick)
            pre = ' '.join([rng.choice(FRAG_FIRST)] + [rng.choice(EM_WORDS) for _ in range(rng.randint(0, 3))]) + rng.choice([' ', ' (', ', ', ': "', ''])
            post = rng.choice(['', '.', ' end', ', then more', ')', '" ok', '; z', '?x', 's'])
            return ('c', pre, rng.choice(CODE_SPANS), post, rng.choice([1, 1, 1, 2, 2, 3, 5]))       # the number of backticks on each side
        if rng.random() < 0.12:                              # a one-line paragraph with one inline link (leaf FLink)
            pre = ' '.join([rng.choice(FRAG_FIRST)] + [rng.choice(EM_WORDS) for _ in range(rng.randint(0, 3))]) + rng.choice([' ', ' (', ', ', ': "'])
            w = ' '.join(rng.choice(EM_INNER) for _ in range(rng.randint(1, 3)))
            post = rng.choice(['', '.', ' end', ', then more', ')', '" ok', '; z', '?x'])
            return ('k', pre, w, rng.choice(LINK_DESTS), post)
        if rng.random() < 0.12:                              # a thematic break: three or more of one of - _ *
            return ('r', rng.choice('-_*') * rng.randint(3, 7))
        if rng.random() < 0.2:                               # an ATX heading: title without '#', not beginning or ending with white space
            title = ' '.join(rng.choice(FRAG_HEAD) for _ in range(rng.randint(1, 4)))
            return ('h', rng.randint(1, 6), title)
        for _ in range(20):
            words = FRAG_WORDS + FRAG_INERT if rng.random() < 0.5 else FRAG_WORDS      # half the paragraphs may hold inert delimiters
            lines = [' '.join([rng.choice(FRAG_FIRST)] + [rng.choice(words) for _ in range(rng.randint(0, 4))])]
            while rng.random() < 0.35 and len(lines) < 4:       # continuation lines: not beginning with '=' either (setext underline)
                lines.append(' '.join([rng.choice(FRAG_CONT)] + [rng.choice(words) for _ in range(rng.randint(0, 4))]))
            if frag_inert(lines):
                return ('p', lines)
        return ('p', ['alpha'])
    kids = [frag_tree(rng, depth - 1) for _ in range(rng.randint(1, 3))]
    frag_fix_kids(kids)
    if r < 0.7:
        return ('q', kids)
    mk = rng.choice(['-', '+', '*', '1.', '7)', '12.', '123456789)', '0.'])
    items = [(mk, rng.randint(1, 4), kids)]
    mode = rng.choice(['blank', 'tight', 'mixed'])     # between two items of one list: a blank line, nothing, or either
    while rng.random() < 0.4 and len(items) < 4:                      # more items of the same list, each after a blank line (leaf-ward: FMore)
        mk2 = mk if len(mk) == 1 else str(rng.choice([0, 1, 2, 7, 10, 99, 123456789])) + mk[-1]
        kids2 = [frag_tree(rng, depth - 1) for _ in range(rng.randint(1, 2))]
        frag_fix_kids(kids2)
        items.append((mk2, rng.randint(1, 4), kids2))
    t = None
    for (m, pad, ks) in reversed(items):
        if ks[0][0] == 'r' and m in '-*' and ks[0][1][0] == m:        # `- ---` would be a thematic break as a whole
            ks[0] = ('r', ('_' if m == '-' else '-') * len(ks[0][1]))
        t = ('i', m, pad, ks) if t is None else ('m', m, pad, ks, t, mode == 'blank' or (mode == 'mixed' and rng.random() < 0.5))
    return t


def frag_doc(rng, depth):
    """a document of the fragment: one tree, or several top-level trees separated by blank lines (C03_fragment_seq_document)"""
    if rng.random() < 0.65:
        return [frag_tree(rng, depth)]
    ts = [frag_tree(rng, max(0, depth - 1)) for _ in range(rng.randint(2, 4))]
    frag_fix_kids(ts)
    return ts


def frag_doc_text(ts):
    lines = []
    for i, t in enumerate(ts):
        if i:
            lines.append('')
        lines += frag_spell(t)
    return '\n'.join(lines) + '\n'


def frag_fix_kids(kids):
    for i in range(1, len(kids)):                                   # two lists are never neighbours
        if kids[i][0] in 'im' and kids[i - 1][0] in 'im':
            kids[i] = ('q', [kids[i]])


def _zl(x):
    return '[' + '; '.join(str(ord(c)) for c in x) + ']'


def frag_gallina(t):
    """the tree as a term of Spec/Fragment.v's ftree"""
    if t[0] == 'p':
        return '(FPara %d %s [%s])' % (ord(t[1][0][0]), _zl(t[1][0][1:]), '; '.join(_zl(l) for l in t[1][1:]))
    if t[0] == 'h':
        return '(FHead %d %d %s)' % (t[1], ord(t[2][0]), _zl(t[2][1:]))
    if t[0] == 'r':
        return '(FRule %d %d)' % (ord(t[1][0]), len(t[1]) - 3)
    if t[0] == 'e':
        return '(FEm %d %s %d %s %s %s)' % (ord(t[1][0]), _zl(t[1][1:]), ord(t[2][0]), 'true' if len(t[2]) == 2 else 'false', _zl(t[3]), _zl(t[4]))
    if t[0] == 'k':
        return '(FLink %d %s %s %s %s)' % (ord(t[1][0]), _zl(t[1][1:]), _zl(t[2]), _zl(t[3]), _zl(t[4]))
    if t[0] == 'c':
        return '(FTick %d %s %d %s %s)' % (ord(t[1][0]), _zl(t[1][1:]), t[4] - 1, _zl(t[2]), _zl(t[3]))
    if t[0] == 'o':
        x = t[2]
        gx = '(IStrike %s)' % _zl(x[1]) if x[0] == 'strike' else '(IEsc %d)' % ord(x[1]) if x[0] == 'esc' else '(IImg %s %s)' % (_zl(x[1]), _zl(x[2])) if x[0] == 'img' else '(ILinkT %s %s %d %s)' % (_zl(x[1]), _zl(x[2]), ord(x[4]), _zl(x[3])) if x[0] == 'tlink' else '(IAuto %d %s %s)' % (ord(x[1][0]), _zl(x[1][1:]), _zl(x[2])) if x[0] == 'auto' else '(ILinkA %s %d %s)' % (_zl(x[1]), ord(x[2][0]), _zl(x[2][1:])) if x[0] == 'alink' else \
            '(ILinkE %s [%s] %s %s)' % (_zl(x[1]), '; '.join('(%d, %d%%nat, %s, %s)' % (ord(c), k - 1, _zl(w), _zl(t)) for c, k, w, t in x[2]), _zl(x[3]), _zl(x[4])) if x[0] == 'elink' else \
            '(INest %d %d %s [%s] %s)' % (ord(x[1]), x[2] - 1, _zl(x[3]), '; '.join('(%d, %d%%nat, %s, %s)' % (ord(c), k - 1, _zl(w), _zl(t)) for c, k, w, t in x[4]), _zl(x[5]))
        return '(FOne %d %s %s %s)' % (ord(t[1][0]), _zl(t[1][1:]), gx, _zl(t[3]))
    if t[0] == 'b':
        (l0, k0), more = t[1][0], t[1][1:]
        return '(FBrk %d %s %d [%s])' % (ord(l0[0]), _zl(l0[1:]), k0, '; '.join('(%s, %d%%nat)' % (_zl(l), k) for l, k in more))
    if t[0] == 's':
        segs = '; '.join('(MEm %d %d %s %s)' % (ord(g[1]), g[2] - 1, _zl(g[3]), _zl(g[4])) if g[0] == 'em' else '(MLk %s %s %s)' % (_zl(g[1]), _zl(g[2]), _zl(g[3])) for g in t[2])
        return '(FSent %d %s [%s])' % (ord(t[1][0]), _zl(t[1][1:]), segs)
    if t[0] == 'f':
        def sl(l):
            if l == '':
                return 'SBlank'
            k = len(l) - len(l.lstrip(' '))
            return '(SLine %d %d %s)' % (k, ord(l[k]), _zl(l[k + 1:]))
        return '(FFence %d %d [%s])' % (ord(t[1][0]), len(t[1]), '; '.join(sl(l) for l in t[2]))
    if t[0] == 'q':
        return '(FQuote [%s])' % '; '.join(frag_gallina(k) for k in t[1])
    kids = '[' + '; '.join(frag_gallina(k) for k in t[3]) + ']'
    mk = '(MBullet %d)' % ord(t[1]) if len(t[1]) == 1 else '(MOrdered %s %d)' % (_zl(t[1][:-1]), ord(t[1][-1]))
    if t[0] == 'm':
        return '(FMore %s %d %s %s %s)' % (mk, t[2], kids, 'true' if t[5] else 'false', frag_gallina(t[4]))
    return '(FItem %s %d %s)' % (mk, t[2], kids)


def _frag_wf_shard(arg):
    k, ts = arg
    d = os.path.join(core.ROOT, 'coq', 'cases')
    os.makedirs(d, exist_ok=True)
    path = os.path.join(d, 'C03Cases%d.v' % k)
    with open(path, 'w') as f:
        f.write('From Coq Require Import ZArith List Bool.\nFrom Mistletoe Require Import Base.Sx Base.PyStr Base.PyText Proofs.ListLaw Proofs.MixPhrases Proofs.CodeSpan Proofs.HardBreaks Proofs.BreakBlocks Proofs.EmphPhrases Spec.Fragment Proofs.FragmentP.\n'
                'Import ListNotations.\nOpen Scope Z_scope.\nDefinition ts : list ftree := [\n  %s].\n'
                'Eval vm_compute in map (fun t => (wf_b t, concat (text_of (spell t)))) ts.\n' % ';\n  '.join(frag_gallina(t) for t in ts))
    rc, out = core.sh(['coqc', '-Q', 'theories', 'Mistletoe', path], timeout=900, cwd=os.path.join(core.ROOT, 'coq'))
    for junk in [path[:-2] + ext for ext in ('.vo', '.vok', '.vos', '.glob', '.v')] + [os.path.join(d, '.C03Cases%d.aux' % k)]:
        try:
            os.remove(junk)
        except OSError:
            pass
    if rc != 0 or '=' not in out:
        return None, out[-400:]
    body = out.split('=', 1)[1].rsplit(': list', 1)[0]
    res = []
    for m in re.finditer(r'\(\s*(true|false),\s*\[([^\]]*)\]\)', body):
        res.append((m.group(1) == 'true', ''.join(chr(int(x)) for x in re.findall(r'-?\d+', m.group(2)))))
    return (res, '') if len(res) == len(ts) else (None, 'unreadable output: ' + out[-300:])


def model_frag_wf(ts):
    """evaluates the theorem's hypothesis wf_b, and the text the model spells, on the trees inside the proof assistant: (wf, text) per tree"""
    from concurrent.futures import ThreadPoolExecutor
    shards = [(k, ts[i:i + 25]) for k, i in enumerate(range(0, len(ts), 25))]
    with ThreadPoolExecutor(max_workers=core.NPROC) as ex:
        parts = list(ex.map(_frag_wf_shard, shards))
    out = []
    for res, err in parts:
        if res is None:
            return None, err
        out += res
    return out, ''


def frag_spell(t):
    if t[0] == 'p':
        return list(t[1])
    if t[0] == 'h':
        return ['#' * t[1] + ' ' + t[2]]
    if t[0] == 'r':
        return [t[1]]
    if t[0] == 'e':
        return [t[1] + t[2] + t[3] + t[2] + t[4]]
    if t[0] == 'k':
        return [t[1] + '[' + t[2] + '](' + t[3] + ')' + t[4]]
    if t[0] == 'c':
        return [t[1] + '`' * t[4] + t[2] + '`' * t[4] + t[3]]
    if t[0] == 'o':
        return [t[1] + inl_text(t[2]) + t[3]]
    if t[0] == 'b':
        return [l + ' ' * k for l, k in t[1][:-1]] + [t[1][-1][0]]
    if t[0] == 's':
        return [t[1] + ''.join(g[1] * g[2] + g[3] + g[1] * g[2] + g[4] if g[0] == 'em' else '[' + g[1] + '](' + g[2] + ')' + g[3] for g in t[2])]
    if t[0] == 'f':
        return [t[1]] + t[2] + [t[1]]
    kids = t[1] if t[0] == 'q' else t[3]
    inner = []
    for i, k in enumerate(kids):
        if i:
            inner.append('')
        inner += frag_spell(k)
    if t[0] == 'q':
        return ['> ' + l for l in inner]
    w = len(t[1]) + t[2]
    item = [t[1] + ' ' * t[2] + inner[0]] + [(' ' * w + l) if l else '' for l in inner[1:]]
    return item + ([''] if t[5] else []) + frag_spell(t[4]) if t[0] == 'm' else item


def code_parts(code):
    """(padding, content) of a code span: one space stripped on each side when both are there and the code is not all spaces"""
    if code.strip(' ') and code.startswith(' ') and code.endswith(' '):
        return ' ', code[1:-1]
    return '', code


def code_runs_html(text):
    """CommonMark's code-span rule, written independently of the pattern: a run of n backticks opens a span closed by the NEXT run of
    exactly n backticks; a run with no such closer is text.  The text holds only backticks and plain characters."""
    esc = lambda x: x.replace('&', '&amp;').replace('<', '&lt;').replace('>', '&gt;')
    runs = [(m.start(), m.end()) for m in re.finditer('`+', text)]
    out, pos, k = '', 0, 0
    while k < len(runs):
        a, b = runs[k]
        close = next((j for j in range(k + 1, len(runs)) if runs[j][1] - runs[j][0] == b - a), None)
        if close is None:
            k += 1
            continue
        out += esc(text[pos:a]) + '<code>' + esc(code_parts(text[b:runs[close][0]])[1]) + '</code>'
        pos = runs[close][1]
        k = close + 1
    return out + esc(text[pos:])


def code_lines_html(text):
    """code spans in a paragraph of several lines (CommonMark): every line loses its leading spaces before the inline phase; in a code
    span a line ending becomes a space (then one space is stripped on each side when both are there); outside, the spaces before a
    line ending go, and two or more make the break a hard one.  The text holds only backticks, spaces, newlines and plain characters."""
    esc = lambda x: x.replace('&', '&amp;').replace('<', '&lt;').replace('>', '&gt;')
    text = '\n'.join(l.lstrip(' ') for l in text.split('\n'))
    def outside(x):
        x = re.sub(r' {2,}\n', '<br />\n', esc(x))
        return re.sub(r' ?\n', '\n', x) if '<br />' not in x else re.sub(r'(?<!>) ?\n', '\n', x)
    runs = [(m.start(), m.end()) for m in re.finditer('`+', text)]
    out, pos, k = '', 0, 0
    while k < len(runs):
        a, b = runs[k]
        close = next((j for j in range(k + 1, len(runs)) if runs[j][1] - runs[j][0] == b - a), None)
        if close is None:
            k += 1
            continue
        out += outside(text[pos:a]) + '<code>' + esc(code_parts(text[b:runs[close][0]].replace('\n', ' '))[1]) + '</code>'
        pos = runs[close][1]
        k = close + 1
    return out + outside(text[pos:])


# destinations written between angle brackets: spaces and parentheses allowed; the first character begins neither an autolink nor an HTML span
ANGLE_DESTS = ['./my docs/a (b).html', '#part one', '2024/q r', '.hidden', '../up one/x.md', '#', '0', './a(b', '.x)y', '#é 中', './a*b_c.txt', '1 2  3']


def _tlink(rng, w):
    """an inline link with a title: the title written between double quotes, single quotes or parentheses - whichever the title's own
    characters allow (CommonMark 6.3: the title may not hold its own delimiter unescaped)"""
    title = rng.choice(['Its title', 't', 'a (b) c', "it's", 'x: y, z', 'é 中', 'say "hi"', "'q' \"r\"", '1) 2', 'a ( b'])
    ways = [q for q in '"\'(' if q not in title and (q != '(' or ')' not in title)]
    return ('tlink', w, rng.choice(LINK_DESTS), title, rng.choice(ways))


def inl_text(x):
    if x[0] == 'alink':
        return '[' + x[1] + '](<' + x[2] + '>)'
    if x[0] == 'auto':
        return '<' + x[1] + ':' + x[2] + '>'
    if x[0] == 'tlink':
        return '[' + x[1] + '](' + x[2] + ' ' + x[4] + x[3] + (')' if x[4] == '(' else x[4]) + ')'
    if x[0] == 'elink':
        return '[' + x[1] + ''.join(c * k + w + c * k + t for c, k, w, t in x[2]) + x[3] + '](' + x[4] + ')'
    if x[0] == 'nest':
        return x[1] * x[2] + x[3] + ''.join(c * k + w + c * k + t for c, k, w, t in x[4]) + x[5] + x[1] * x[2]
    return '~~' + x[1] + '~~' if x[0] == 'strike' else '\\' + x[1] if x[0] == 'esc' else '![' + x[1] + '](' + x[2] + ')'


def frag_expect(t, ln):
    """(dumped tree, line numbers in pre-order)"""
    if t[0] == 'p':
        ch = []
        for i, l in enumerate(t[1]):
            if i:
                ch.append([trees.TAGS['LineBreak'], '', True])
            ch.append([0, l])
        return [trees.TAGS['Paragraph'], ch], [ln]
    if t[0] == 'h':
        return [trees.TAGS['Heading'], t[1], '', [[0, t[2]]]], [ln]
    if t[0] == 'r':
        return [trees.TAGS['ThematicBreak'], t[1]], [ln]
    if t[0] == 'e':
        em = [trees.TAGS['Strong' if len(t[2]) == 2 else 'Emphasis'], t[2][0], [[0, t[3]]]]
        return [trees.TAGS['Paragraph'], [[0, t[1]], em] + ([[0, t[4]]] if t[4] else [])], [ln]
    if t[0] == 'k':
        lk = [trees.TAGS['Link'], t[3], '', 'uri', [], '', [[0, t[2]]]]
        return [trees.TAGS['Paragraph'], [[0, t[1]], lk] + ([[0, t[4]]] if t[4] else [])], [ln]
    if t[0] == 'o':
        x = t[2]
        if x[0] == 'auto':
            el = [trees.TAGS['AutoLink'], x[1] + ':' + x[2], False, [[0, x[1] + ':' + x[2]]]]
        elif x[0] == 'tlink':
            el = [trees.TAGS['Link'], x[2], x[3], 'uri', [], x[4], [[0, x[1]]]]
        elif x[0] == 'alink':
            el = [trees.TAGS['Link'], x[2], '', 'angle_uri', [], '', [[0, x[1]]]]
        elif x[0] == 'elink':
            kids, g = [], x[1]
            for pc_, pk_, pw_, pt_ in x[2]:
                kids += ([[0, g]] if g else []) + [[trees.TAGS['Strong' if pk_ == 2 else 'Emphasis'], pc_, [[0, pw_]]]]
                g = pt_
            kids += [[0, g + x[3]]]
            el = [trees.TAGS['Link'], x[4], '', 'uri', [], '', kids]
        elif x[0] == 'nest':
            kids, g = [], x[3]
            for pc_, pk_, pw_, pt_ in x[4]:
                kids += ([[0, g]] if g else []) + [[trees.TAGS['Strong' if pk_ == 2 else 'Emphasis'], pc_, [[0, pw_]]]]
                g = pt_
            kids += [[0, g + x[5]]]
            el = [trees.TAGS['Strong' if x[2] == 2 else 'Emphasis'], x[1], kids]
        else:
            el = ([trees.TAGS['Strikethrough'], [[0, x[1]]]] if x[0] == 'strike' else [trees.TAGS['EscapeSequence'], [[0, x[1]]]] if x[0] == 'esc'
                  else [trees.TAGS['Image'], x[2], '', 'uri', [], '', [[0, x[1]]]])
        return [trees.TAGS['Paragraph'], [[0, t[1]], el] + ([[0, t[3]]] if t[3] else [])], [ln]
    if t[0] == 'b':
        ch = []
        for i, (l, k) in enumerate(t[1]):
            ch.append([0, l])
            if i + 1 < len(t[1]):
                ch.append([trees.TAGS['LineBreak'], ' ' * k, k < 2])
        return [trees.TAGS['Paragraph'], ch], [ln]
    if t[0] == 'c':
        pad, content = code_parts(t[2])
        return [trees.TAGS['Paragraph'], [[0, t[1]], [trees.TAGS['InlineCode'], '`' * t[4], pad, content]] + ([[0, t[3]]] if t[3] else [])], [ln]
    if t[0] == 's':
        ch = [[0, t[1]]]
        for g in t[2]:
            if g[0] == 'em':
                ch += [[trees.TAGS['Strong' if g[2] == 2 else 'Emphasis'], g[1], [[0, g[3]]]], [0, g[4]]]
            else:
                ch += [[trees.TAGS['Link'], g[2], '', 'uri', [], '', [[0, g[1]]]]] + ([[0, g[3]]] if g[3] else [])
        return [trees.TAGS['Paragraph'], ch], [ln]
    if t[0] == 'f':
        return [trees.TAGS['CodeFence'], 0, t[1], '', '', ''.join(l + '\n' for l in t[2])], [ln]
    def seq(kids, cur):
        ds, ls = [], []
        for k in kids:
            d, l = frag_expect(k, cur)
            ds.append(d)
            ls += l
            cur += len(frag_spell(k)) + 1
        return ds, ls
    if t[0] == 'q':
        ds, ls = seq(t[1], ln)
        return [trees.TAGS['Quote'], ds], [ln] + ls
    # a list: the items of the chain; an item followed by another is loose (the blank line is its own), the last one only with two blocks or more
    items, lines, cur, node = [], [ln], ln, t
    while True:
        ds, ls = seq(node[3], cur)
        last = node[0] == 'i'
        loose = len(node[3]) > 1 or (not last and node[5])
        items.append([trees.TAGS['ListItem'], node[1], 0, len(node[1]) + node[2], loose, ds])
        lines += [cur] + ls
        if last:
            break
        cur += len(frag_spell(('i',) + tuple(node[1:4]))) + (1 if node[5] else 0)
        node = node[4]
    start = [] if len(t[1]) == 1 else [int(t[1][:-1])]
    return [trees.TAGS['List'], start, any(i[4] for i in items), items], lines


def frag_html(t, tight):
    """html_f of Proofs/FragmentHtml.v: the HTML written directly from a fragment tree"""
    esc = lambda x: x.replace('&', '&amp;').replace('<', '&lt;').replace('>', '&gt;')
    if t[0] == 'p':
        inner = '\n'.join(esc(l) for l in t[1])
        return inner if tight else '<p>' + inner + '</p>'
    if t[0] == 'h':
        return '<h%d>%s</h%d>' % (t[1], esc(t[2]), t[1])
    if t[0] == 'r':
        return '<hr />'
    if t[0] == 'e':
        tag = 'strong' if len(t[2]) == 2 else 'em'
        inner = esc(t[1]) + '<%s>%s</%s>' % (tag, esc(t[3]), tag) + esc(t[4])
        return inner if tight else '<p>' + inner + '</p>'
    if t[0] == 'o':
        from urllib.parse import quote
        x = t[2]
        if x[0] == 'auto':
            u_ = x[1] + ':' + x[2]
            mid = '<a href="%s">%s</a>' % (html_mod.escape(quote(u_, safe='/#:()*?=%@+,&;')), esc(u_))
        elif x[0] == 'alink':
            mid = '<a href="%s">%s</a>' % (html_mod.escape(quote(x[2], safe='/#:()*?=%@+,&;')), esc(x[1]))
        elif x[0] == 'tlink':
            mid = '<a href="%s" title="%s">%s</a>' % (html_mod.escape(quote(x[2], safe='/#:()*?=%@+,&;')), html_mod.escape(x[3]), esc(x[1]))
        elif x[0] == 'elink':
            tg = lambda k: 'strong' if k == 2 else 'em'
            mid = '<a href="%s">' % html_mod.escape(quote(x[4], safe='/#:()*?=%@+,&;')) + esc(x[1]) + ''.join('<%s>%s</%s>' % (tg(k), esc(w), tg(k)) + esc(t) for c, k, w, t in x[2]) + esc(x[3]) + '</a>'
        elif x[0] == 'nest':
            tg = lambda k: 'strong' if k == 2 else 'em'
            mid = '<%s>' % tg(x[2]) + esc(x[3]) + ''.join('<%s>%s</%s>' % (tg(k), esc(w), tg(k)) + esc(t) for c, k, w, t in x[4]) + esc(x[5]) + '</%s>' % tg(x[2])
        else:
            mid = ('<del>%s</del>' % esc(x[1]) if x[0] == 'strike' else esc(x[1]) if x[0] == 'esc'
                   else '<img src="%s" alt="%s" />' % (html_mod.escape(quote(x[2], safe='/#:()*?=%@+,&;')), html_mod.escape(x[1])))
        inner = esc(t[1]) + mid + esc(t[3])
        return inner if tight else '<p>' + inner + '</p>'
    if t[0] == 'b':
        inner = ''.join(esc(l) + ('<br />\n' if k >= 2 else '\n') for l, k in t[1][:-1]) + esc(t[1][-1][0])
        return inner if tight else '<p>' + inner + '</p>'
    if t[0] == 'c':
        inner = esc(t[1]) + '<code>' + esc(code_parts(t[2])[1]) + '</code>' + esc(t[3])
        return inner if tight else '<p>' + inner + '</p>'
    if t[0] == 's':
        from urllib.parse import quote
        inner = esc(t[1])
        for g in t[2]:
            if g[0] == 'em':
                tag = 'strong' if g[2] == 2 else 'em'
                inner += '<%s>%s</%s>' % (tag, esc(g[3]), tag) + esc(g[4])
            else:
                inner += '<a href="%s">%s</a>' % (html_mod.escape(quote(g[2], safe='/#:()*?=%@+,&;')), esc(g[1])) + esc(g[3])
        return inner if tight else '<p>' + inner + '</p>'
    if t[0] == 'k':
        from urllib.parse import quote
        href = html_mod.escape(quote(t[3], safe='/#:()*?=%@+,&;'))
        inner = esc(t[1]) + '<a href="%s">%s</a>' % (href, esc(t[3 - 1])) + esc(t[4])
        return inner if tight else '<p>' + inner + '</p>'
    if t[0] == 'f':
        return '<pre><code>' + esc(''.join(l + '\n' for l in t[2])) + '</code></pre>'
    if t[0] == 'q':
        return '<blockquote>\n' + '\n'.join(frag_html(k, False) for k in t[1]) + '\n</blockquote>'
    kids = t[3]
    tg = len(kids) <= 1
    if t[0] == 'm':                        # several items: loose if an item holds two blocks or a blank line separates two items
        nodes, node = [], t
        while True:
            nodes.append(node)
            if node[0] == 'i':
                break
            node = node[4]
        tgl = not any(len(nd[3]) > 1 or (nd[0] == 'm' and nd[5]) for nd in nodes)
        lis = ['<li>' + ('' if tgl and nd[3][0][0] in 'peksbco' else '\n') + '\n'.join(frag_html(k, tgl) for k in nd[3]) + ('' if tgl and nd[3][-1][0] in 'peksbco' else '\n') + '</li>' for nd in nodes]
        if len(t[1]) == 1:
            return '<ul>\n' + '\n'.join(lis) + '\n</ul>'
        n = int(t[1][:-1])
        return ('<ol>' if n == 1 else '<ol start="%d">' % n) + '\n' + '\n'.join(lis) + '\n</ol>'
    if len(t[1]) == 1:
        op, cl = '<ul>', '</ul>'
    else:
        n = int(t[1][:-1])
        op, cl = ('<ol>' if n == 1 else '<ol start="%d">' % n), '</ol>'
    return (op + '\n<li>' + ('' if tg and kids[0][0] in 'peksbco' else '\n') + '\n'.join(frag_html(k, tg) for k in kids)
            + ('' if tg and kids[-1][0] in 'peksbco' else '\n') + '</li>\n' + cl)


def outline_forest(rng, depth, width):
    """a forest of Spec/Outline.v: (title, kids)"""
    out = []
    for _ in range(rng.randint(1, width)):
        title = ' '.join([rng.choice(FRAG_FIRST)] + [rng.choice(FRAG_WORDS) for _ in range(rng.randint(0, 3))])
        kids = outline_forest(rng, depth - 1, width) if depth > 0 and rng.random() < 0.5 else []
        out.append((title, kids))
    return out


def outline_spell(forest, k, b, pad, sub):
    lines = []
    for title, kids in forest:
        lines.append(' ' * k + b + ' ' * pad + title)
        lines += [' ' * (k + 1 + pad) + l for l in outline_spell(kids, sub, b, pad, sub)]
    return lines


def outline_expect(forest, k, b, pad, sub, ln):
    """(dumped List token, line numbers in pre-order, HTML, number of lines)"""
    items, lns, html, cur = [], [ln], [], ln
    for title, kids in forest:
        ch = [[trees.TAGS['Paragraph'], [[0, title]]]]
        ilns = [cur, cur]
        h = '<li>' + title.replace('&', '&amp;').replace('<', '&lt;').replace('>', '&gt;')
        n = 1
        if kids:
            d, l, hh, m = outline_expect(kids, sub, b, pad, sub, cur + 1)
            ch.append(d)
            ilns += l
            h += '\n' + hh + '\n'
            n += m
        items.append([trees.TAGS['ListItem'], b, k, k + 1 + pad, False, ch])
        lns += ilns
        html.append(h + '</li>')
        cur += n
    return [trees.TAGS['List'], [], False, items], lns, '<ul>\n' + '\n'.join(html) + '\n</ul>', cur - ln


def outline_worker(seed):
    """the outline lists of the second unbounded theorem (C03_outline_lists) on the implementation"""
    rng = random.Random(seed)
    forest = outline_forest(rng, rng.randint(0, 4), 3)
    k, b, pad, sub = rng.randint(0, 3), rng.choice('-+*'), rng.randint(1, 4), rng.randint(0, 3)
    text = '\n'.join(outline_spell(forest, k, b, pad, sub)) + '\n'
    want_tree, want_lines, want_html, _n = outline_expect(forest, k, b, pad, sub, 1)
    from mistletoe import Document
    try:
        with xdoc.renderer(0):
            d = Document(text)
            got = trees.dump(d)[1]
            gl = trees.block_line_numbers(d)
        import mistletoe
        html = mistletoe.markdown(text)
    except Exception as e:
        return text, False, 'EXC %s: %s' % (type(e).__name__, e), None
    ok = got == [want_tree] and gl == want_lines and html == want_html + '\n'
    return text, ok, (got, gl, html), ([want_tree], want_lines, want_html + '\n')


CODE_PIECES = ['x', 'def f(x):', 'return', '<b>', '&amp;', '&', '"q"', "'s'", '- item', '> quote', '# head', '1. one', '```', '~~~', '[a]: /u', '| t |', '***', '---',
               '===', '    ', '  ', ' ', '\\', '`c`', '*e*', '_u_', 'é', '中', '\xa0', 'end;']


def code_worker(seed):
    """the class of C03_indented_code_block: lines that begin with four spaces and are not blank"""
    import html
    import mistletoe
    rng = random.Random(seed)
    lines = []
    for _ in range(rng.randint(1, 8)):
        l = ''.join(rng.choice(CODE_PIECES) for _ in range(rng.randint(1, 6)))
        if not l.strip() or '\t' in l:
            l = 'x' + l
        lines.append(l)
    text = ''.join('    ' + l + '\n' for l in lines)
    want = '<pre><code>' + html.escape('\n'.join(lines) + '\n', quote=False) + '</code></pre>\n'
    try:
        got = mistletoe.markdown(text)
    except Exception as e:
        got = 'EXC %s: %s' % (type(e).__name__, e)
    return text, got == want, got, want


SETEXT_WORDS = ['A', 'title', '(really)', 'e.g.', '50%', 'x', 'Zed.', '"q"', "it's", 'a-b', 'é', '中文', 'two', 'words,', 'end;', 'c:d', '@m', '}o']


def setext_worker(seed):
    """the class of C03_setext_heading: plain text lines, then an underline of = or - of any length"""
    import html
    import mistletoe
    rng = random.Random(seed)
    lines = [' '.join(rng.choice(SETEXT_WORDS) for _ in range(rng.randint(1, 6))) for _ in range(rng.randint(1, 4))]
    c = rng.choice('=-')
    text = '\n'.join(lines) + '\n' + c * rng.randint(1, 12) + '\n'
    lv = 1 if c == '=' else 2
    want = '<h%d>%s</h%d>\n' % (lv, html.escape('\n'.join(lines), quote=False), lv)
    try:
        got = mistletoe.markdown(text)
    except Exception as e:
        got = 'EXC %s: %s' % (type(e).__name__, e)
    return text, got == want, got, want


def markdown_worker(text):
    import mistletoe
    try:
        return mistletoe.markdown(text)
    except Exception as e:
        return 'EXC %s: %s' % (type(e).__name__, e)


def nohtml_worker(text):
    from mistletoe import Document
    from mistletoe.html_renderer import HtmlRenderer
    try:
        with HtmlRenderer(process_html_tokens=False) as r:
            return r.render(Document(text))
    except Exception as e:
        return 'EXC %s: %s' % (type(e).__name__, e)


def frag_worker(args):
    seed, depth = args
    rng = random.Random(seed)
    ts = frag_doc(rng, depth)
    text = frag_doc_text(ts)
    want_trees, want_lines, cur = [], [], 1
    for t in ts:
        d, l = frag_expect(t, cur)
        want_trees.append(d)
        want_lines += l
        cur += len(frag_spell(t)) + 1
    from mistletoe import Document
    try:
        with xdoc.renderer(0):
            d = Document(text)
            got = trees.dump(d)[1]
            gl = trees.block_line_numbers(d)
        import mistletoe
        html = mistletoe.markdown(text)
    except Exception as e:
        return text, False, 'EXC %s: %s' % (type(e).__name__, e), None
    want_html = '\n'.join(frag_html(t, False) for t in ts) + '\n'
    ok = got == want_trees and gl == want_lines and html == want_html
    return text, ok, (got, gl, html), (want_trees, want_lines, want_html)


def run(ctx, only=None):
    ctx.cov['rule'] = ('trees drawn from the seeded grammar of harness/treegen.py (depth up to 4; paragraphs, ATX/setext headings, breaks, fenced/indented code, '
                       'quotes, tight/loose bullet/ordered lists, tables, HTML blocks, link definitions; all inline constructs) x 3 spellings each (markers, '
                       'indent 0-3, padding 1-4, fences, closing #, > with/without space, lazy lines, optional blank lines, definition placement); equivalence = '
                       'CommonMark test normalisation; non-trivial = the tree has a container; distinct = distinct spelled texts')
    rng = random.Random(ctx.seed)
    n = 1500 if ctx.quick() else 40000
    jobs = []
    for i in range(n):
        stream = 'main' if i % 10 < 8 else ('setext_in_quote' if i % 10 == 8 else 'lazy_after_indented')
        jobs.append((rng.randint(0, 2 ** 40), stream, 4 if i % 3 == 0 else 3, 3))
    with mp.Pool(core.NPROC) as pool:
        res = pool.map(worker, jobs, chunksize=20)
    choices = {}
    blocks = {}
    nontriv = 0
    texts = []
    seen = set()
    for (seed, stream, depth, _), (tree, want, counts, out) in zip(jobs, res):
        for k, v in counts.items():
            blocks[k] = blocks.get(k, 0) + v
        for (text, ok, kf, got, ch) in out:
            if text in seen:
                continue
            seen.add(text)
            ctx.count('evaluations')
            ctx.count('stream_' + stream)
            for k, v in ch.items():
                choices[k] = choices.get(k, 0) + v
            if any(b[0] in ('quote', 'list') for b in tree):
                nontriv += 1
            if len(texts) < (1200 if ctx.quick() else 25000):
                texts.append(text)
            if not ok:
                what = {'kf_setext_in_quote': 'a setext heading inside a block quote is not recognised (Quote.read switches setext parsing off)',
                        'kf_lazy_after_indented_line': 'a lazy continuation line is refused after a quoted line indented four or more spaces (Quote.read takes it for indented code)',
                        None: 'the rendered HTML is not equivalent to the HTML written from the tree'}[kf]
                ctx.failing.append({'interface': 'oracle(tree)', 'input': {'text': text, 'seed': seed, 'stream': stream, 'depth': depth},
                                    'what': what, 'observed': got, 'expected': want, 'kf': kf})
    ctx.cov['constructs_drawn'] = blocks
    ctx.cov['spelling_choices_taken'] = choices
    ctx.count('distinct_nontrivial', nontriv)
    ctx.sample({'text': res[0][3][0][0], 'expected_html': res[0][1]})
    # the fragment of the unbounded theorem, on the implementation: same trees, same expected structure and line numbers
    fjobs = [(rng.randint(0, 2 ** 40), 1 + i % 6) for i in range(1500 if ctx.quick() else 40000)]
    with mp.Pool(core.NPROC) as pool:
        fres = pool.map(frag_worker, fjobs, chunksize=50)
    ftexts = []
    for (seed, depth), (text, ok, got, want) in zip(fjobs, fres):
        ctx.count('evaluations')
        ctx.count('fragment_trees')
        if len(ftexts) < (600 if ctx.quick() else 10000):
            ftexts.append(text)
        if not ok:
            ctx.failing.append({'interface': 'oracle(fragment)', 'input': {'text': text, 'seed': seed, 'depth': depth},
                                'what': 'a tree of plain paragraphs, fenced code, quotes and single-item lists does not parse to the tree it was written from', 'observed': got, 'expected': want, 'kf': None})
    ctx.count('fragment_trees_with_inert_delimiters', sum(1 for (_, d_), (text, _, _, _) in zip(fjobs, fres) if re.search(r'[\[\]!&]|\*[^*\n]|_', text) ))
    def has_more(t):
        return t[0] == 'm' or (t[0] in 'qi' and any(has_more(k) for k in (t[1] if t[0] == 'q' else t[3])))
    docs = [frag_doc(random.Random(seed), depth) for (seed, depth) in fjobs[:1500]]
    ctx.count('fragment_trees_with_lists_of_several_items_in_first_1500', sum(1 for ts in docs if any(has_more(t) for t in ts)))
    ctx.count('fragment_documents_of_several_blocks_in_first_1500', sum(1 for ts in docs if len(ts) > 1))
    # the theorem's own hypothesis (wf_b) and the text it speaks about (spell), evaluated in the proof assistant on a sample of those trees
    if not ctx.proof_failures:
        sample = [(seed, depth) for (seed, depth) in fjobs if depth <= 4][:(150 if ctx.quick() else 1500)]
        sts = [('q', frag_doc(random.Random(seed), depth)) for (seed, depth) in sample]      # the document's blocks as the content of one quote: same trees, same sequence conditions
        res, err = model_frag_wf(sts)
        if res is None or len(res) != len(sts):
            ctx.disagreements.append({'interface': 'X-hyp(fragment)', 'input': {'seed': sample[0][0], 'depth': sample[0][1]}, 'model': 'wf_b could not be evaluated: ' + err, 'impl': ''})
        else:
            for (seed, depth), t, (wf, mtext) in zip(sample, sts, res):
                ctx.count('fragment_trees_with_hypotheses_checked_in_the_model')
                text = '\n'.join(frag_spell(t)) + '\n'
                if not wf or mtext != text or ''.join(l[2:] + '\n' for l in text.split('\n')[:-1]) != frag_doc_text(t[1]):
                    ctx.disagreements.append({'interface': 'X-hyp(fragment)', 'input': {'text': text, 'seed': seed, 'depth': depth},
                                              'model': 'wf_b = %s, spelled text %r' % (wf, mtext), 'impl': 'a tree of the fragment by the harness generator, spelled %r' % text})
    # the class of C03_link_phrases on the implementation: one sentence with any number of inline links
    from urllib.parse import quote
    escq = lambda x: x.replace('&', '&amp;').replace('<', '&lt;').replace('>', '&gt;')      # text: quotes stay as they are
    ljobs = []
    for _ in range(400 if ctx.quick() else 8000):
        t0 = rng.choice(['', 'see ', 'a: ', '(', 'x ', 'so, '])
        text, exp = t0, escq(t0)
        for _i in range(rng.randint(1, 5)):
            w = ' '.join(rng.choice(EM_INNER) for _ in range(rng.randint(1, 3)))
            d = rng.choice(LINK_DESTS)
            t = rng.choice(['', ' ', ' and ', ', ', '. ', ')', ' (x) ', '; then '])
            text += '[' + w + '](' + d + ')' + t
            exp += '<a href="%s">%s</a>' % (html_mod.escape(quote(d, safe='/#:()*?=%@+,&;')), escq(w)) + escq(t)
        text = text.rstrip(' ')
        exp = exp.rstrip(' ')
        if text[0] in ' ' or not text:
            continue
        ljobs.append((text + '\n', '<p>' + exp + '</p>\n'))
    # ... and the class of C03_mixed_phrases: emphasised phrases and links mixed in one sentence
    mseps = [' ', ' and ', ', ', '. Then ', ' (', ') ', ': "', '" ', ' — ', '.', ' x y, ', '; ']
    for _ in range(400 if ctx.quick() else 8000):
        t0 = rng.choice(['', 'Say ', 'x: ', '(', 'one two. '])
        text, exp = t0, escq(t0)
        nseg = rng.randint(2, 6)
        for i in range(nseg):
            w = ' '.join(rng.choice(EM_INNER) for _ in range(rng.randint(1, 3)))
            if rng.random() < 0.5:
                ch, dbl = rng.choice('*_'), rng.random() < 0.5
                run_ = ch * (2 if dbl else 1)
                t = rng.choice(mseps)
                text += run_ + w + run_ + t
                exp += (('<strong>%s</strong>' if dbl else '<em>%s</em>') % escq(w)) + escq(t)
            else:
                d = rng.choice(LINK_DESTS)
                t = rng.choice(mseps + ['', ''])
                text += '[' + w + '](' + d + ')' + t
                exp += '<a href="%s">%s</a>' % (html_mod.escape(quote(d, safe='/#:()*?=%@+,&;')), escq(w)) + escq(t)
        text, exp = text.rstrip(' '), exp.rstrip(' ')
        ljobs.append((text + '\n', '<p>' + exp + '</p>\n'))
        ctx.count('mixed_sentences')
    # ... and the class of C03_code_in_sentence: one code span in a sentence, its content holding any delimiters
    for _ in range(400 if ctx.quick() else 8000):
        pre = rng.choice(['', 'see ', 'a: ', '(', 'x ', 'so, ', 'call', 'é '])
        code = rng.choice(CODE_SPANS) if rng.random() < 0.6 else ''.join(rng.choice('ab *_[]()!#>-"\' .:é') for _ in range(rng.randint(1, 12)))
        post = rng.choice(['', '.', ' end', ', then more', ')', '" ok', '; z', 's'])
        if not (pre + '`' + code).strip(' ') or (pre == '' and False):
            continue
        nb = rng.choice([1, 1, 2, 3, 4])
        text = pre + '`' * nb + code + '`' * nb + post
        ljobs.append((text + '\n', '<p>' + escq(pre) + '<code>' + escq(code_parts(code)[1]) + '</code>' + escq(post) + '</p>\n'))
        ctx.count('code_sentences')
    # ... of C03_breaks_in_paragraph_text: lines followed by any number of spaces before the newline
    for _ in range(300 if ctx.quick() else 6000):
        lines = [' '.join([rng.choice(EM_WORDS)] + [rng.choice(EM_WORDS + EM_INNER) for _ in range(rng.randint(0, 4))]) for _ in range(rng.randint(2, 5))]
        ks = [rng.choice([0, 0, 1, 2, 2, 3, 5, 8, -1, -1]) for _ in lines[:-1]]          # -1: the break is written with a backslash (C03_backslash_break)
        text = ''.join(l + (' ' * k if k >= 0 else '\\') + '\n' for l, k in zip(lines, ks)) + lines[-1] + '\n'
        exp = ''.join(escq(l) + ('<br />\n' if k >= 2 or k < 0 else '\n') for l, k in zip(lines, ks)) + escq(lines[-1])
        ljobs.append((text, '<p>' + exp + '</p>\n'))
        ctx.count('paragraphs_with_trailing_spaces')
    # ... of C03_autolink_in_sentence: a URI autolink in a sentence (the address may hold '@': it is not an e-mail address)
    for _ in range(200 if ctx.quick() else 4000):
        pre = rng.choice(['', 'see ', 'a: ', '(', 'x ', 'so, ', 'é '])
        post = rng.choice(['', '.', ' end', ', then more', ')', '" ok', '; z', 's'])
        url = rng.choice(['http', 'https', 'ftp', 'mailto', 'x-1', 'a0']) + ':' + rng.choice(['//ex.am/a-b?c=d#e', '//user@host.ex/p', 'me@ex.am', '//h', '', '/p/q.html', '//é.ex/中', 'a+b,c;d'])
        ljobs.append((pre + '<' + url + '>' + post + '\n', '<p>' + escq(pre) + '<a href="%s">%s</a>' % (html_mod.escape(quote(url, safe='/#:()*?=%@+,&;')), escq(url)) + escq(post) + '</p>\n'))
        ctx.count('autolink_sentences')
    # ... of C03_html_span_in_sentence / C03_html_tag_without_html_spans: a tag passes through as it stands, or - raw HTML switched off - is text
    hjobs = []
    for _ in range(200 if ctx.quick() else 4000):
        pre = rng.choice(['so ', 'a: ', '(', 'x ', 'me@ex.am: ', 'é '])      # never empty: a tag that opens a line may open an HTML block
        post = rng.choice(['', '.', ' bold', ', then more', ')', '" ok', '; z', 's'])
        name = rng.choice(['b', 'em', 'my-widget2', 'x1', 'B', 'sup', 'a-', 'h1'])
        ljobs.append((pre + '<' + name + '>' + post + '\n', '<p>' + escq(pre) + '<' + name + '>' + escq(post) + '</p>\n'))
        hjobs.append((pre + '<' + name + '>' + post + '\n', '<p>' + escq(pre) + '&lt;' + name + '&gt;' + escq(post) + '</p>\n'))
        ctx.count('html_span_sentences')
    with mp.Pool(core.NPROC) as pool:
        hres = pool.map(nohtml_worker, [t for t, _ in hjobs], chunksize=50)
    for (text, want), got in zip(hjobs, hres):
        ctx.count('evaluations')
        if got != want:
            ctx.failing.append({'interface': 'oracle(tag without raw HTML)', 'input': {'text': text, 'process_html_tokens': False},
                                'what': 'with raw HTML switched off a tag in a sentence is not rendered as escaped text', 'observed': got, 'expected': want, 'kf': None})
    # ... of C03_angle_link_in_sentence
    for _ in range(200 if ctx.quick() else 4000):
        pre = rng.choice(['', 'see ', 'a: ', '(', 'x ', 'so, ', 'é ', 'me@ex.am: '])
        post = rng.choice(['', '.', ' end', ', then more', ')', '" ok', '; z', 's'])
        w = ' '.join(rng.choice(EM_INNER) for _ in range(rng.randint(1, 3)))
        d = rng.choice(ANGLE_DESTS)
        ljobs.append((pre + '[' + w + '](<' + d + '>)' + post + '\n',
                      '<p>' + escq(pre) + '<a href="%s">%s</a>' % (html_mod.escape(quote(d, safe='/#:()*?=%@+,&;')), escq(w)) + escq(post) + '</p>\n'))
        ctx.count('angle_link_sentences')
    # ... of C03_image_in_sentence
    for _ in range(200 if ctx.quick() else 4000):
        pre = rng.choice(['', 'see ', 'a: ', '(', 'x ', 'so, ', 'é '])
        post = rng.choice(['', '.', ' end', ', then more', ')', '" ok', '; z', 's'])
        w = ' '.join(rng.choice(EM_INNER) for _ in range(rng.randint(1, 3)))
        d = rng.choice(LINK_DESTS)
        ljobs.append((pre + '![' + w + '](' + d + ')' + post + '\n',
                      '<p>' + escq(pre) + '<img src="%s" alt="%s" />' % (html_mod.escape(quote(d, safe='/#:()*?=%@+,&;')), html_mod.escape(w)) + escq(post) + '</p>\n'))
        ctx.count('image_sentences')
    # ... of C03_strike_in_sentence and C03_escape_in_sentence
    for _ in range(300 if ctx.quick() else 6000):
        pre = rng.choice(['', 'see ', 'a: ', '(', 'x ', 'so, ', 'was', 'é '])
        post = rng.choice(['', '.', ' end', ', then more', ')', '" ok', '; z', 's'])
        if rng.random() < 0.5:
            w = ' '.join(rng.choice(EM_INNER) for _ in range(rng.randint(1, 3)))
            if ' ' in w and rng.random() < 0.3:
                # the phrase runs over a line ending (a soft line break inside <del>)
                w = w.replace(' ', '\n', 1)
                ctx.count('strike_sentences_over_a_line_ending')
            ljobs.append((pre + '~~' + w + '~~' + post + '\n', '<p>' + escq(pre) + '<del>' + escq(w) + '</del>' + escq(post) + '</p>\n'))
            ctx.count('strike_sentences')
        else:
            c = rng.choice('!"#%\'()*+,-./:;=>?@[\\]^_}')
            ljobs.append((pre + '\\' + c + post + '\n', '<p>' + escq(pre) + escq(c) + escq(post) + '</p>\n'))
            ctx.count('escape_sentences')
    # ... and code spans with runs of one to three backticks, against CommonMark's rule written independently of the pattern (code_runs_html)
    for _ in range(400 if ctx.quick() else 8000):
        pieces = [rng.choice(['a', 'b c', 'x', ' ', 'y z', ' p ', 'é', 'q, r', '(t)']) if rng.random() < 0.55 else '`' * rng.randint(1, 3) for _ in range(rng.randint(2, 8))]
        text = ('w ' + ''.join(pieces)).rstrip(' ')
        ljobs.append((text + '\n', '<p>' + code_runs_html(text) + '</p>\n'))
        ctx.count('code_run_sentences')
    # ... and over several lines: line endings inside and around the spans (code_lines_html)
    for _ in range(1500 if ctx.quick() else 20000):
        pieces = [rng.choice(['a', 'b c', 'x', ' ', 'y z', ' p ', 'é', 'q, r', '(t)', '\n', '\n', ' \n', '\n ', '`\n', '\n`', '``\n', '\n``']) if rng.random() < 0.6 else '`' * rng.randint(1, 3) for _ in range(rng.randint(3, 9))]
        text = ('w ' + ''.join(pieces)).rstrip(' \n')
        lines = text.split('\n')
        if any(not l.strip(' ') or l.lstrip(' ').startswith('```') for l in lines) or '\n' not in text:
            continue
        ljobs.append((text + '\n', '<p>' + code_lines_html(text) + '</p>\n'))
        ctx.count('code_run_paragraphs_of_several_lines')
    # fenced code whose CONTENT has lines that would close the block if they stood less deep: fence characters behind four or more spaces,
    # a shorter run, a run with text behind it, lines of spaces only - all of it is content, word for word
    for _ in range(300 if ctx.quick() else 6000):
        chf = rng.choice('`~')
        nf = rng.randint(3, 4)
        body = [rng.choice(['first', 'last', '    ' + chf * nf, '     ' + chf * (nf + 1), '    ' + chf * (nf + 2), chf * (nf - 1), '   ' + chf * (nf - 1), chf * nf + ' x' if chf == '~' else 'x ' + chf * nf,
                            '    ', '  ', '', '\tx', '    ' + ('~' if chf == '`' else '`') * nf, ('~' if chf == '`' else '`') * nf])
                for _b in range(rng.randint(1, 5))]
        closer = rng.choice(['', ' ', '  ', '   ']) + chf * rng.randint(nf, nf + 1) + rng.choice(['', ' '])
        text = chf * nf + '\n' + ''.join(l + '\n' for l in body) + closer + '\n' + 'after\n'
        ljobs.append((text, '<pre><code>' + html_mod.escape(''.join(l + '\n' for l in body), quote=False) + '</code></pre>\n<p>after</p>\n'))
        ctx.count('fences_with_fence_like_content')
    with mp.Pool(core.NPROC) as pool:
        lres = pool.map(markdown_worker, [t for t, _ in ljobs], chunksize=50)
    for (text, want), got in zip(ljobs, lres):
        ctx.count('evaluations')
        ctx.count('link_sentences')
        if got != want:
            ctx.failing.append({'interface': 'oracle(link sentence)', 'input': {'text': text}, 'what': 'a sentence with inline links, emphasised phrases or a code span is not its text with one element per construct written',
                                'observed': got, 'expected': want, 'kf': None})
    # the outline lists of the second unbounded theorem, on the implementation
    ojobs = [rng.randint(0, 2 ** 40) for _ in range(800 if ctx.quick() else 20000)]
    with mp.Pool(core.NPROC) as pool:
        ores = pool.map(outline_worker, ojobs, chunksize=50)
    for seed, (text, ok, got, want) in zip(ojobs, ores):
        ctx.count('evaluations')
        ctx.count('outline_forests')
        if len(ftexts) < (900 if ctx.quick() else 14000):
            ftexts.append(text)
        if not ok:
            ctx.failing.append({'interface': 'oracle(outline)', 'input': {'text': text, 'outline_seed': seed},
                                'what': 'a tight nested bullet list written one item per line does not parse to the forest it was written from', 'observed': got, 'expected': want, 'kf': None})
    # indented code blocks of any content (C03_indented_code_block), on the implementation
    cjobs = [rng.randint(0, 2 ** 40) for _ in range(1500 if ctx.quick() else 30000)]
    with mp.Pool(core.NPROC) as pool:
        cres = pool.map(code_worker, cjobs, chunksize=100)
    for seed, (text, ok, got, want) in zip(cjobs, cres):
        ctx.count('evaluations')
        ctx.count('indented_code_blocks')
        if len(ftexts) < (1100 if ctx.quick() else 16000):
            ftexts.append(text)
        if not ok:
            ctx.failing.append({'interface': 'oracle(indented code)', 'input': {'text': text, 'code_seed': seed},
                                'what': 'lines indented by four spaces are not one code block holding exactly those lines', 'observed': got, 'expected': want, 'kf': None})
    # setext headings (C03_setext_heading), on the implementation
    sjobs = [rng.randint(0, 2 ** 40) for _ in range(1500 if ctx.quick() else 30000)]
    with mp.Pool(core.NPROC) as pool:
        sres = pool.map(setext_worker, sjobs, chunksize=100)
    for seed, (text, ok, got, want) in zip(sjobs, sres):
        ctx.count('evaluations')
        ctx.count('setext_headings')
        if len(ftexts) < (1300 if ctx.quick() else 18000):
            ftexts.append(text)
        if not ok:
            ctx.failing.append({'interface': 'oracle(setext heading)', 'input': {'text': text, 'setext_seed': seed},
                                'what': 'plain lines followed by an underline are not one setext heading holding the lines', 'observed': got, 'expected': want, 'kf': None})
    # thematic breaks of every length (C03_thematic_break): few enough to run them all
    import mistletoe as _m
    for c in '-_*':
        for n in range(3, 40 if ctx.quick() else 200):
            ctx.count('evaluations')
            ctx.count('thematic_breaks')
            t = c * n + '\n'
            try:
                got = _m.markdown(t)
            except Exception as e:
                got = 'EXC %s: %s' % (type(e).__name__, e)
            if got != '<hr />\n':
                ctx.failing.append({'interface': 'oracle(thematic break)', 'input': {'text': t}, 'what': 'a line of three or more - _ * is not a thematic break',
                                    'observed': got, 'expected': '<hr />\n', 'kf': None})
            ftexts.append(t)
    xdoc.run(ctx, texts + ftexts, cfgs=(0,))


def replay(ctx, obj):
    inp = obj.get('input') or {}
    if isinstance(inp, dict) and 'seed' in inp:
        tree, want, counts, out = worker((inp['seed'], inp['stream'], inp['depth'], 3))
        for (text, ok, kf, got, ch) in out:
            ctx.count('evaluations')
            if not ok:
                ctx.failing.append({'interface': 'oracle(replay)', 'input': dict(inp, text=text), 'what': 'the rendered HTML is not equivalent to the HTML written from the tree',
                                    'observed': got, 'expected': want, 'kf': kf})
    else:
        run(ctx)
