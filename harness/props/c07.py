"""C07 — link reference definitions: position-independent, first wins, case-folded."""
import html
import multiprocessing as mp
import random
import re

from harness import core, inputs, xdoc

GEN = ['gen_tables', 'gen_regex', 'gen_config', 'gen_escapes', 'gen_core']
THEOREMS = ['C07_full_reference_in_sentence', 'C07_collapsed_reference_in_sentence', 'C07_reference_without_definition', 'C07_reference_in_sentence', 'C07_reference_resolves', 'C07_reference_hypotheses', 'C07_definition_scanners_are_the_source', 'C07_first_wins', 'C07_document_lookup', 'C07_containers_transparent', 'C07_two_phase', 'C07_no_output']
TRUSTED = ['the parser model (Model/Block.v, Build.v, Inline.v, CoreTokens.v): hand-written control flow, regenerated patterns/tables/configuration; '
           'tied by X-doc (tree, Document.footnotes with order, line numbers)',
           'the definition-placement generator (oracle side)']
ASSUMPTIONS = ['which text is accepted as a definition: the scanners of label, destination and title are the source\'s (translated on every run, proved equal to the '
               'model\'s: C07_definition_scanners_are_the_source); how Footnote.match_reference and Footnote.read put them together is the hand-written model, tied by '
               'correspondence and by the specification examples (C02), not specified independently',
               'that the block phase never reads the footnote map is a structural fact of the model (the map is not threaded through it); the '
               'correspondence run compares Document.footnotes, order included']

VARIANTS = {'foo': ['foo', 'Foo', 'FOO', ' foo ', 'fOO'], 'two words': ['two words', 'Two  Words', 'TWO\twords', 'two\nwords'],
            'straße': ['straße', 'STRASSE', 'Strasse', 'STRAẞE'], 'ünï': ['ünï', 'ÜNÏ'], 'x': ['x', 'X'],
            # labels with escaped brackets inside: the closing bracket of the label is the first UNESCAPED one
            'a\\]b': ['a\\]b', 'A\\]B', 'a\\]B'], 'c\\[d': ['c\\[d', 'C\\[D']}


def norm(label):
    return ' '.join(label.split()).casefold()


def gen_case(rng):
    """returns (text, expectations): expectations = [(use_id, (dest_out, title) or None)]"""
    keys = rng.sample(list(VARIANTS), rng.randint(1, 3))
    # skeleton: a list of (prefix_first, prefix_rest) containers for each top-level slot
    nslots = rng.randint(2, 5)
    slots = []
    for _ in range(nslots):
        c = rng.random()
        if c < 0.5:
            slots.append(('', ''))
        elif c < 0.75:
            slots.append(('> ', '> '))
        elif c < 0.9:
            slots.append(('- ', '  '))
        else:
            slots.append(('> - ', '>   '))
    defs = []        # in document order
    uses = []
    lines = []
    uid = [0]
    did = [0]

    def para(p1, p2):
        n = rng.randint(1, 2)
        out = []
        for i in range(n):
            words = ['w%d' % rng.randint(0, 9)]
            for _u in range(rng.randint(0, 2)):
                key = rng.choice(keys + ['undefined label'])
                lab = rng.choice(VARIANTS[key]) if key in VARIANTS else key
                if '\n' in lab:
                    lab = lab.replace('\n', ' ')
                uid[0] += 1
                u = 'use%d' % uid[0]
                form = rng.random()
                if form < 0.5:
                    words.append('[%s][%s]' % (u, lab))
                    uses.append((u, norm(lab), 'full', lab))
                else:
                    # collapsed / shortcut forms use the label as the link text: the use is found again between two marker words
                    kind = 'collapsed' if form < 0.75 else 'shortcut'
                    words.append('%s( %s )%s' % (u, '[%s][]' % lab if kind == 'collapsed' else '[%s]' % lab, u))
                    uses.append((u, norm(lab), kind, lab))
                words.append('w%d' % rng.randint(0, 9))
            out.append(' '.join(words))
        return [(p1 if i == 0 else p2) + l for i, l in enumerate(out)]

    def definition(p1, p2):
        key = rng.choice(keys)
        lab = rng.choice(VARIANTS[key])
        did[0] += 1
        if rng.random() < 0.3:
            dest_src, dest_out = '<d %d>' % did[0], 'd%%20%d' % did[0]
        else:
            dest_src = dest_out = '/d%d' % did[0]
        t = rng.random()
        title = 't%d' % did[0]
        if t < 0.25:
            tsrc, tout = '', ''
        elif t < 0.5:
            tsrc, tout = ' "%s"' % title, title
        elif t < 0.75:
            tsrc, tout = " '%s'" % title, title
        else:
            tsrc, tout = ' (%s)' % title, title
        labsrc = lab
        out = []
        first = '[%s]: %s%s' % (labsrc, dest_src, tsrc)
        parts = first.split('\n')
        for i, l in enumerate(parts):
            out.append((p1 if i == 0 else p2) + l)
        defs.append((norm(lab), dest_out, tout))
        return out

    for (p1, p2) in slots:
        blocks = []
        for _b in range(rng.randint(1, 3)):
            if rng.random() < 0.4:
                blocks.append(definition)
            else:
                blocks.append(para)
        first = True
        for b in blocks:
            bl = b(p1 if first else p2, p2)
            if lines and not (first and p1 == ''):
                pass
            if not first:
                lines.append(p2.rstrip())
            lines += bl
            first = False
        lines.append('')
    text = '\n'.join(lines) + '\n'
    exp = []
    for (u, key, form, lab) in uses:
        hit = next(((d, t) for (k, d, t) in defs if k == key), None)
        exp.append((u, hit, lab, form))
    return text, exp, len(defs)


SENT_WORDS = ['see', 'the', 'note', 'x1', 'end.', 'q)', '(r', 'a-b', 'c+d', 'e=f', 'k,', '"l"', "m'", 'n:', 'o;', '2.5', '#g', 'h%', '@i', 'j?', '}', '^', '/p', '>']


def gen_sentence(rng):
    """the class of C07_reference_in_sentence / C07_reference_resolves: ONE shortcut reference [w] in a one-line sentence of trigger-free text,
    no '(' right after it; its definitions (1-3, the first one decides) before or after the sentence, possibly inside a quote, labels spelled differently"""
    key = rng.choice([k for k in VARIANTS if '\\' not in k])      # trigger-free labels only: the class of the theorem
    forms = [v for v in VARIANTS[key] if '\n' not in v]
    pre = ' '.join(rng.choice(SENT_WORDS) for _ in range(rng.randint(0, 3)))
    post = ' '.join(rng.choice(SENT_WORDS) for _ in range(rng.randint(0, 3)))
    pre = pre + rng.choice([' ', ' (', ': "']) if pre else rng.choice(['', 'a '])
    post = rng.choice([' ', ')', '" ', ', ', '.']) + post if post else rng.choice(['', '.'])
    if post.startswith('('):
        post = ' ' + post
    w = rng.choice(forms)
    form = rng.choice(['shortcut', 'shortcut', 'full', 'collapsed', 'undefined', 'full_undefined'])
    shown = w
    if form == 'full':
        shown = ' '.join(rng.choice(SENT_WORDS[:6]) for _ in range(rng.randint(1, 2)))
        ref = '[' + shown + '][' + w + ']'
    elif form == 'collapsed':
        ref = '[' + w + '][]'
    elif form == 'undefined':
        shown = w = 'no such label'
        ref = '[' + w + ']'
    elif form == 'full_undefined':      # the text IS a defined label, the label is not: the reference must not fall back on its text
        ref = '[' + w + '][no such label]'
    else:
        ref = '[' + w + ']'
    sentence = (pre + ref + post).strip(' ')
    if not sentence[0].isalnum() and sentence[0] != '[':
        sentence = 'so ' + sentence
    defs = []
    for i in range(rng.randint(1, 3)):
        defs.append(('[%s]: /t%d%s' % (rng.choice(forms), i, rng.choice(['', ' "T%d"' % i])), '/t%d' % i))
    blocks = [('s', sentence)] + [('d', d[0]) for d in defs]
    order = list(range(len(blocks)))
    rng.shuffle(order)
    lines, first_def = [], None
    for j in order:
        kind, l = blocks[j]
        if kind == 'd' and first_def is None:
            first_def = l
        q = '> ' if (kind == 'd' and rng.random() < 0.3) else ''
        lines += [q + l, '']
    m = re.match(r'\[.*?\]: (\S+)(?: "(.*)")?$', first_def)
    return '\n'.join(lines), sentence, ref, shown, form, m.group(1), m.group(2) or ''


def worker(text):
    from mistletoe import Document
    from mistletoe.html_renderer import HtmlRenderer
    try:
        with HtmlRenderer() as r:
            d = Document(text)
            return r.render(d), [[k, v[0], v[1]] for k, v in d.footnotes.items()]
    except Exception as e:
        return 'EXC %s: %s' % (type(e).__name__, e), None


def run(ctx, only=None):
    ctx.cov['rule'] = ('generated documents: definitions placed at block boundaries at top level, in quotes, list items and quoted list items, with '
                       'duplicate and near-duplicate labels (case, inner whitespace, Unicode case folding), full / collapsed / shortcut reference forms, three title quotings, angle destinations; '
                       'non-trivial = at least two definitions; distinct = distinct documents')
    rng = random.Random(ctx.seed)
    n = 3000 if ctx.quick() else 60000
    cases = [gen_case(rng) for _ in range(n)]
    texts = [c[0] for c in cases]
    with mp.Pool(core.NPROC) as pool:
        outs = pool.map(worker, texts, chunksize=50)
    nontriv = set()
    placements = {}
    for (text, exp, ndefs), (out, fns) in zip(cases, outs):
        ctx.count('evaluations')
        if ndefs >= 2:
            nontriv.add(text)
        placements[ndefs] = placements.get(ndefs, 0) + 1
        if fns is None:
            ctx.failing.append({'interface': 'oracle', 'input': {'text': text}, 'what': 'parse/render raised ' + out, 'kf': None})
            continue
        if re.search(r'\]:\s*(/d|&lt;d|<d)', out):
            ctx.failing.append({'interface': 'oracle', 'input': {'text': text}, 'what': 'a link reference definition produced output of its own',
                                'observed': out, 'kf': None})
            continue
        for (u, hit, lab, form) in exp:
            ctx.count('references_' + form)
            if form != 'full':
                mm = re.search(r'%s\( (.*?) \)%s' % (u, u), out, re.S)
                inner = mm.group(1) if mm else None
                m = re.fullmatch(r'<a href="([^"]*)"(?: title="([^"]*)")?>(.*)</a>', inner, re.S) if inner is not None else None
                shown = re.sub(r'\\([!-/:-@\[-`{-~])', r'\1', lab)       # what the label looks like as text: backslash escapes are processed there (not for matching)
                if m is not None and html.unescape(m.group(3)).strip() != shown.strip():
                    m = None
                if hit is None and m is None and inner is not None and html.unescape(inner) != ('[%s][]' % shown if form == 'collapsed' else '[%s]' % shown):
                    ctx.failing.append({'interface': 'oracle', 'input': {'text': text, 'use': u, 'label': lab},
                                        'what': 'a %s reference with no matching definition does not stay literal text' % form, 'observed': inner, 'kf': None})
                    continue
            else:
                m = re.search(r'<a href="([^"]*)"(?: title="([^"]*)")?>%s</a>' % u, out)
            if hit is None:
                if m is not None:
                    ctx.failing.append({'interface': 'oracle', 'input': {'text': text, 'use': u}, 'what': 'a reference without matching definition became a link',
                                        'observed': m.group(0), 'kf': None})
            else:
                got = (html.unescape(m.group(1)), html.unescape(m.group(2) or '')) if m else None
                if got != (hit[0], hit[1]):
                    ctx.failing.append({'interface': 'oracle', 'input': {'text': text, 'use': u, 'label': lab},
                                        'what': 'a %s reference does not resolve to the first matching definition in document order' % form,
                                        'observed': got, 'expected': hit, 'kf': None})
    # the class of the unbounded theorem C07_reference_resolves on the implementation: one shortcut reference in a plain sentence
    scases = [gen_sentence(rng) for _ in range(600 if ctx.quick() else 12000)]
    with mp.Pool(core.NPROC) as pool:
        souts = pool.map(worker, [c[0] for c in scases], chunksize=50)
    esc = lambda x: html.escape(x, quote=False)
    for (text, sentence, ref, shown, form, dest, title), (out, fns) in zip(scases, souts):
        ctx.count('evaluations')
        ctx.count('reference_sentences')
        ctx.count('reference_sentences_' + form)
        i = sentence.index(ref)
        if form in ('undefined', 'full_undefined'):
            want = '<p>%s</p>' % esc(sentence)
        else:
            want = '<p>%s<a href="%s"%s>%s</a>%s</p>' % (esc(sentence[:i]), dest, ' title="%s"' % title if title else '', esc(shown), esc(sentence[i + len(ref):]))
        if fns is None or want not in out:
            ctx.failing.append({'interface': 'oracle(reference sentence)', 'input': {'text': text},
                                'what': 'a reference (shortcut, full or collapsed) in a plain sentence is not one link to the first definition of its label in document order, between the text before and after it - or a reference without definition does not stay literal text',
                                'observed': out, 'expected': want, 'kf': None})
    ctx.cov['definitions_per_document'] = {str(k): v for k, v in sorted(placements.items())}
    ctx.count('distinct_nontrivial', len(nontriv))
    ctx.sample({'text': cases[0][0], 'expected(use, (dest,title), label, form)': cases[0][1], 'html': outs[0][0]})
    # model vs implementation on the same documents and on spec-derived ones
    xdoc.run(ctx, texts[:1500 if ctx.quick() else 20000] + [c[0] for c in scases[:300 if ctx.quick() else 4000]] + inputs.spec_texts(), cfgs=(0, 2))


def replay(ctx, obj):
    run(ctx)
