"""C08 — HTML output is well-formed and document text cannot inject markup.

Theorems: over ALL token trees (Props/C08.v).  Correspondence X-html: the real
HtmlRenderer vs the extracted model on parsed trees (8 option sets) and on
LOADED random trees with hostile attribute strings; X-str: the escaping helpers
on every code point.  Oracle: the extracted Spec.HtmlSpec.check_html applied to
the implementation's output with raw-HTML content set aside."""
import multiprocessing as mp
import random

from harness import core, inputs, trees

GEN = ['gen_escapes', 'gen_tables', 'gen_regex', 'gen_config']
THEOREMS = ['C08_balanced', 'C08_items_ok', 'C08_raw_origin', 'C08_escapers', 'C08_parsed_trees_have_ranged_attributes', 'C08_items_ok_for_every_input']
TRUSTED = ['hand-written model coq/theories/Model/HtmlRenderer.v of html_renderer.py (structure of the templates); '
           'escape chain, URL safe set and the escaping function at every template hole are REGENERATED from the source '
           '(harness/gen/gen_escapes.py, Python ast) on every run',
           'Base/PyStr.v re-implements html.escape and urllib.parse.quote (differentially tested on every code point)',
           'the tree dumper/loader harness/trees.py']
ASSUMPTIONS = ['the theorems over ALL token trees carry the hypothesis wf_attrs (heading level 1..6); it is PROVED for every tree the parser model produces '
               '(C08_parsed_trees_have_ranged_attributes: the level is the length of the # group of the regenerated Heading.pattern, bounded by the group-length '
               'analysis of Proofs/ReGroups.v), so C08_items_ok_for_every_input has no hypothesis; for trees built by hand it is still monitored on every dumped tree',
               'code points are Unicode scalar values (urllib.parse.quote raises on lone surrogates)']

OPTS = [(pht, dq, sq) for pht in (True, False) for dq in (False, True) for sq in (False, True)]
PLACEHOLDER = ''


def neutralise(t):
    """set the verbatim content of raw HTML tokens aside"""
    name = type(t).__name__
    if name == 'HtmlBlock':
        t.children[0].content = PLACEHOLDER
    elif name == 'HtmlSpan':
        t.content = PLACEHOLDER
    if name == 'Table' and 'header' in vars(t):
        neutralise(t.header)
    for c in (t.children or ()):
        neutralise(c)


def parse_worker(text):
    from mistletoe import Document
    from mistletoe.html_renderer import HtmlRenderer
    res = []
    for (pht, dq, sq) in OPTS:
        try:
            with HtmlRenderer(process_html_tokens=pht, html_escape_double_quotes=dq, html_escape_single_quotes=sq) as r:
                doc = Document(text)
                out = r.render(doc)
                w = trees.dump(doc)
                neutralise(doc)
                out2 = r.render(doc)
            res.append((out, w, out2, None))
        except Exception as e:
            res.append((None, None, None, '%s: %s' % (type(e).__name__, e)))
    return res


def load_worker(args):
    w, dq, sq = args
    from mistletoe.html_renderer import HtmlRenderer
    try:
        with HtmlRenderer(html_escape_double_quotes=dq, html_escape_single_quotes=sq) as r:
            t = trees.load(w)
            out = r.render(t)
            neutralise(t)
            out2 = r.render(t)
        return out, out2, None
    except Exception as e:
        return None, None, '%s: %s' % (type(e).__name__, e)


def str_worker(block):
    import html
    from mistletoe.html_renderer import HtmlRenderer
    s = ''.join(chr(c) for c in range(block * 4096, block * 4096 + 4096) if not 0xD800 <= c <= 0xDFFF)
    res = [html.escape(s), HtmlRenderer.escape_url(s)]
    for dq in (False, True):
        for sq in (False, True):
            r = HtmlRenderer.__new__(HtmlRenderer)
            r.html_escape_double_quotes = dq
            r.html_escape_single_quotes = sq
            res.append(r.escape_html_text(s))
    return s, res


REASON = {1: 'output does not lex as tags+text (an attribute value or a tag is broken)', 2: 'tags are not properly nested',
          3: 'tag or attribute outside the renderer vocabulary, or unsafe attribute value', 4: "text contains a raw '<', '>' or '&'"}


def hostile(w):
    """non-trivial for C08: some attribute/text string of the tree contains a quote, angle bracket or ampersand"""
    if isinstance(w, str):
        return any(c in w for c in '"\'<>&')
    if isinstance(w, list):
        return any(hostile(x) for x in w)
    return False


def run(ctx, only=None):
    ctx.cov['rule'] = ('parsed trees of (spec examples, mutations, random, hostile generated documents) x 8 option sets and loaded random trees; '
                       'non-trivial = the tree holds a string with a quote, angle bracket or ampersand; distinct = distinct (tree, options)')
    rng = random.Random(ctx.seed)
    n_parsed = 3000 if ctx.quick() else 40000
    n_loaded = 12000 if ctx.quick() else 200000
    texts = ['![a](x"onerror="alert(1))', '<a@b.c>', '[a](<b"c> "t\\"")'] + inputs.mixed_stream(rng, n_parsed)
    texts += [inputs.hostile_doc(rng) for _ in range(n_parsed)]
    if only is not None:
        texts = only
    nontriv = set()
    with mp.Pool(core.NPROC) as pool:
        parsed = pool.map(parse_worker, texts, chunksize=50)
    reqs, meta, chk = [], [], []
    for text, res in zip(texts, parsed):
        for (pht, dq, sq), (out, w, out2, err) in zip(OPTS, res):
            ctx.count('evaluations')
            if err is not None:
                # totality is C01's business; here an exception only means no output to judge
                ctx.count('impl_exceptions')
                continue
            reqs.append([8, dq, sq, w])
            meta.append((text, (pht, dq, sq), out))
            chk.append([81, out2])
            if hostile(w):
                nontriv.add((text, pht, dq, sq))
    if ctx.driver_ok:
        mres = core.model_map(reqs)
        cres = core.model_map(chk)
        for (text, o, out), m, c in zip(meta, mres, cres):
            if core.dstr(m) != out:
                ctx.disagreements.append({'interface': 'X-html(parsed)', 'input': {'text': text, 'opts(process_html,dq,sq)': o},
                                          'model': core.dstr(m), 'impl': out})
            if c != 0:
                kf = None
                ctx.failing.append({'interface': 'oracle check_html', 'input': {'text': text, 'opts(process_html,dq,sq)': o},
                                    'what': REASON.get(c, str(c)), 'observed': out, 'kf': kf})
    ctx.cov['parsed_inputs'] = len(texts)
    if texts:
        ctx.sample({'stream': 'parsed', 'text': texts[-1], 'html': parsed[-1][0][0]})
    if only is not None:
        return
    # loaded hostile trees
    ws = []
    for i in range(n_loaded):
        html = rng.random() < 0.5
        ws.append((trees.rdoc(rng, html=html) if rng.random() < 0.7 else trees.rblock(rng, 2, html=html),
                   rng.random() < 0.5, rng.random() < 0.5))
    with mp.Pool(core.NPROC) as pool:
        loaded = pool.map(load_worker, ws, chunksize=200)
    reqs, meta, chk = [], [], []
    for (w, dq, sq), (out, out2, err) in zip(ws, loaded):
        ctx.count('evaluations')
        ctx.count('loaded_trees')
        if err is not None:
            ctx.count('impl_exceptions')
            ctx.disagreements.append({'interface': 'X-html(loaded)', 'input': {'tree': w}, 'model': 'a string', 'impl': 'raised ' + err})
            continue
        reqs.append([8, dq, sq, w])
        meta.append((w, dq, sq, out))
        chk.append([81, out2])
        if hostile(w):
            nontriv.add(repr((w, dq, sq)))
    if ctx.driver_ok:
        mres = core.model_map(reqs)
        cres = core.model_map(chk)
        for (w, dq, sq, out), m, c in zip(meta, mres, cres):
            if core.dstr(m) != out:
                ctx.disagreements.append({'interface': 'X-html(loaded)', 'input': {'tree': w, 'dq': dq, 'sq': sq},
                                          'model': core.dstr(m), 'impl': out})
            if c != 0:
                ctx.failing.append({'interface': 'oracle check_html (loaded tree)', 'input': {'tree': w, 'dq': dq, 'sq': sq},
                                    'what': REASON.get(c, str(c)), 'observed': out, 'kf': None})
    ctx.sample({'stream': 'loaded', 'tree': ws[0][0], 'html': loaded[0][0]})
    ctx.count('distinct_nontrivial', len(nontriv))
    # X-str: every code point through the three helpers
    blocks = list(range(0x110000 // 4096))
    with mp.Pool(core.NPROC) as pool:
        sres = pool.map(str_worker, blocks)
    reqs = []
    for s, res in sres:
        reqs += [[80, 0, 0, 0, s], [80, 1, 0, 0, s]] + [[80, 2, dq, sq, s] for dq in (0, 1) for sq in (0, 1)]
    if ctx.driver_ok:
        mres = core.model_map(reqs)
        k = 0
        for s, res in sres:
            for j, r in enumerate(res):
                if core.dstr(mres[k]) != r:
                    ctx.disagreements.append({'interface': 'X-str', 'input': {'function': j, 'block_start': ord(s[0])},
                                              'model': core.dstr(mres[k])[:80], 'impl': r[:80]})
                k += 1
    ctx.cov['code_points_through_escapers'] = sum(len(s) for s, _ in sres)
    ctx.cov['exhaustive_code_points'] = True


def replay(ctx, obj):
    inp = obj['input']
    if 'text' in inp:
        run(ctx, only=[inp['text']])
    else:
        run(ctx)
