"""C11 — results depend only on input and renderer, never on earlier library use."""
import multiprocessing as mp
import random

from harness import core

GEN = ['gen_tables', 'gen_regex', 'gen_config', 'gen_escapes']
THEOREMS = ['C11_exit_resets', 'C11_one_session_resets']
TRUSTED = ['Model/History.v: hand-written model of the token-list bookkeeping (constructor effects regenerated from the live classes)',
           'the parser model is a pure function of configuration and text: that no scratch state leaks between parses is an ASSUMPTION of the '
           'model, checked here on the implementation (outputs after a history vs a fresh interpreter, and vs the model)']
ASSUMPTIONS = ['PARTIAL: the theorem covers the token lists; scratch-state independence is decided by the history oracle',
               'sessions are not nested (each renderer is used as a context manager, one after the other): after an inner context exits the lists are '
               'the defaults, as the property\'s second sentence requires, so an outer renderer would lose its tokens - nesting is outside the quantifier']

RENDERERS = {
    'html': ('mistletoe.html_renderer', 'HtmlRenderer', {}),
    'html_nohtml': ('mistletoe.html_renderer', 'HtmlRenderer', {'process_html_tokens': False}),
    'markdown': ('mistletoe.markdown_renderer', 'MarkdownRenderer', {}),
    'latex': ('mistletoe.latex_renderer', 'LaTeXRenderer', {}),
    'ast': ('mistletoe.ast_renderer', 'AstRenderer', {}),
    'toc': ('mistletoe.contrib.toc_renderer', 'TocRenderer', {}),
    'wiki': ('mistletoe.contrib.github_wiki', 'GithubWikiRenderer', {}),
    'mathjax': ('mistletoe.contrib.mathjax', 'MathJaxRenderer', {}),
    'pygments': ('mistletoe.contrib.pygments_renderer', 'PygmentsRenderer', {}),
    'jira': ('mistletoe.contrib.jira_renderer', 'JiraRenderer', {}),
    'xwiki': ('mistletoe.contrib.xwiki20_renderer', 'XWiki20Renderer', {}),
    # the same classes with other options: what one instance was given must not be seen by the next
    'pygments_monokai': ('mistletoe.contrib.pygments_renderer', 'PygmentsRenderer', {'style': 'monokai'}),
    'html_quotes': ('mistletoe.html_renderer', 'HtmlRenderer', {'html_escape_double_quotes': True, 'html_escape_single_quotes': True}),
    'markdown_wrapped': ('mistletoe.markdown_renderer', 'MarkdownRenderer', {'max_line_length': 20, 'normalize_whitespace': True}),
    'toc_shallow': ('mistletoe.contrib.toc_renderer', 'TocRenderer', {'depth': 1, 'omit_title': False}),
}
PROBES = ['hello world\n', '# h #\n\ntext\n', '```py\ncode\n```\n', '<div>\nx\n</div>\n\ny\n', '> q\n> r\n\nfoo\n===\n', 'x `code` **a**b* y\n',
          'a\n===\n\nb\n---\n', '| a |\n| - |\n| b |\n', '[x]: /u "t"\n\n[x] and [y]\n', '- a\n\n  b\n- c\n1. d\n', '    indented\n\n<!-- c -->\n',
          # per-class scratch of the block readers: a value left by one document must not steer the next
          '<!-- a comment -->\n\nsome text\n', '<my-widget>\n\nhello *world*\n', '<pre>\nx\n\ny</pre>\n\nz\n', '<?php x ?>\n\nt\n', '<![CDATA[\nx\n]]>\n\nt\n',
          '</my-widget>\n\npara\n', '~~~ info\nfenced\n~~~\n', '###### six ######\n', '#\n', '````\nunclosed\n']
RAISE_DOCS = ['> quote `c1`\n> more\n\npara `code` *x* [l](u)\n\n```\nf\n```\n\n# h\n', '- item `k`\n\n  > q\n  > r\n\n<div>\n\ntail `z`\n']


def get(name):
    import importlib
    mod, cls, kw = RENDERERS[name]
    return getattr(importlib.import_module(mod), cls), kw


def lists():
    from mistletoe import block_token, span_token
    return [c.__name__ for c in block_token._token_types], [c.__name__ for c in span_token._token_types]


def scratch():
    from mistletoe import block_token, core_tokens, token
    import html
    from mistletoe import span_tokenizer
    # only state that a LATER parse reads before writing it (token._root_node and core_tokens._code_matches are
    # re-initialised at the start of every Document / inline scan, so a stale value cannot influence a result)
    return {'parse_setext': block_token.Paragraph.parse_setext, 'charref_is_stdlib': html._charref is span_tokenizer._stdlib_charref,
            'interrupt_paragraph': block_token.Table.interrupt_paragraph}


def render(name, text):
    import mistletoe
    R, kw = get(name)
    try:
        with R(**kw) as r:
            return r.render(mistletoe.Document(text))
    except Exception as e:
        return 'EXC %s: %s' % (type(e).__name__, e)


def bare(text):
    from mistletoe import Document
    from mistletoe.ast_renderer import get_ast
    import json
    try:
        return json.dumps(get_ast(Document(text)), sort_keys=True)
    except Exception as e:
        return 'EXC %s: %s' % (type(e).__name__, e)


def fresh_worker(args):
    """run in a process that has done nothing else"""
    kind, name, text = args
    if kind == 'render':
        out = render(name, text)
        return out, lists(), scratch()
    if kind == 'inside':
        R, kw = get(name)
        with R(**kw):
            return lists()
    return bare(text), lists(), scratch()


class Boom(Exception):
    pass


def raising_parse(name, text, in_span, position, kth):
    """a parse under renderer `name` with a custom token at `position` of the block/span list whose start()/find() raises on its k-th call"""
    import mistletoe
    from mistletoe import block_token, span_token
    R, kw = get(name)
    calls = [0]

    def tick():
        calls[0] += 1
        if calls[0] >= kth:
            raise Boom()
    if in_span:
        class Raiser(span_token.SpanToken):
            @classmethod
            def find(cls, string):
                tick()
                return []
    else:
        class Raiser(block_token.BlockToken):
            @classmethod
            def start(cls, line):
                tick()
                return False
    try:
        with R(**kw) as r:
            mod = span_token if in_span else block_token
            mod.add_token(Raiser, min(position, len(mod._token_types) - (1 if in_span else 0)))
            r.render(mistletoe.Document(text))
        return 'completed'
    except Boom:
        return 'raised'
    except Exception as e:
        return 'EXC %s: %s' % (type(e).__name__, e)


RENDER_RAISE_DOC = '- a **boom** b\n- c\n\n> q **x**\n\n1. d\n\n   **y** e\n'


def raising_render(name):
    """a RENDER under renderer `name` that raises while the children of a tight list are being written (the parse completes)"""
    import mistletoe
    R, kw = get(name)

    class RR(R):
        def render_strong(self, token):
            raise Boom()
    try:
        with RR(**kw) as r:
            r.render(mistletoe.Document(RENDER_RAISE_DOC))
        return 'completed'
    except Boom:
        return 'raised'
    except Exception as e:
        return 'EXC %s: %s' % (type(e).__name__, e)


def history_worker(h):
    """run a history in THIS process; record what is observable after every step"""
    obs = []
    for op in h:
        if op[0] == 'session':
            _, name, body = op
            for b in body:
                if b[0] == 'render':
                    obs.append(('render', name, b[1], render(name, b[1]), lists(), scratch()))
                elif b[0] == 'render_raise':
                    obs.append(('raise', name, ['render_raise'], raising_render(name), lists(), scratch()))
                else:
                    obs.append(('raise', name, b[1:], raising_parse(name, *b[1:]), lists(), scratch()))
        else:
            obs.append(('bare', None, op[1], bare(op[1]), lists(), scratch()))
    return obs


def gen_history(rng, maxlen):
    h = []
    names = list(RENDERERS)
    for _ in range(rng.randint(1, maxlen)):
        k = rng.random()
        if k < 0.2:
            h.append(('bare', rng.choice(PROBES)))
        else:
            name = rng.choice(names)
            body = []
            for _b in range(rng.randint(1, 2)):
                if rng.random() < 0.15:
                    body.append(('render_raise',))
                elif rng.random() < 0.45:
                    body.append(('raise', rng.choice(RAISE_DOCS), rng.random() < 0.5, rng.randint(0, 11), rng.randint(1, 12)))
                else:
                    body.append(('render', rng.choice(PROBES)))
            h.append(('session', name, body))
    return h


def run(ctx, only=None):
    ctx.cov['rule'] = ('histories over {session of renderer R with renders and parses that raise inside a custom block/span token at any list position '
                       'on its k-th call, bare Document(probe)}: systematic (raise under R1, then every probe under R2) and random up to length %d; after '
                       'every step the output is compared with a fresh interpreter, the token lists with the defaults, the scratch attributes with their '
                       'initial values; non-trivial = the history contains a raising parse followed by a render; distinct = distinct histories'
                       % (4 if ctx.quick() else 6))
    rng = random.Random(ctx.seed)
    names = list(RENDERERS)
    # references from fresh interpreters (one process per task)
    tasks = [('render', n, p) for n in names for p in PROBES] + [('bare', None, p) for p in PROBES] + [('inside', n, None) for n in names]
    with mp.get_context('fork').Pool(core.NPROC, maxtasksperchild=1) as pool:
        fres = pool.map(fresh_worker, tasks, chunksize=1)
    ref = {}
    inside_ref = {}
    for t, r in zip(tasks, fres):
        if t[0] == 'inside':
            inside_ref[t[1]] = r
        else:
            ref[(t[0], t[1], t[2])] = r
    default_lists = ref[('bare', None, PROBES[0])][1]
    default_scratch = ref[('bare', None, PROBES[0])][2]
    hs = []
    # systematic: one raising parse at every position, then every probe under a second renderer
    second = ['html', 'markdown', 'latex', 'jira'] if ctx.quick() else names
    for n1 in (['html', 'markdown', 'xwiki'] if ctx.quick() else names):
        for in_span in (False, True):
            for pos in range(0, 11):
                for kth in (1, 3, 7):
                    n2 = second[(pos + kth) % len(second)]
                    hs.append([('session', n1, [('raise', RAISE_DOCS[pos % 2], in_span, pos, kth)]),
                               ('session', n2, [('render', p) for p in PROBES]), ('bare', PROBES[4])])
    # systematic: the same renderer class with two option sets, one after the other and back (what an instance was given must die with it)
    for na, nb in [('pygments_monokai', 'pygments'), ('html_quotes', 'html'), ('markdown_wrapped', 'markdown'), ('toc_shallow', 'toc'), ('html_nohtml', 'html')]:
        for first, then in ((na, nb), (nb, na)):
            hs.append([('session', first, [('render', p) for p in PROBES]), ('session', then, [('render', p) for p in PROBES]),
                       ('session', first, [('render', p) for p in PROBES])])
    # systematic: a render that raises inside a tight list, then every probe under a NEW instance of an HTML-based renderer and of the others
    for n1 in ['html', 'toc', 'mathjax', 'pygments', 'wiki', 'markdown', 'latex']:
        for n2 in ['html', 'html_nohtml', 'toc', 'latex', 'markdown']:
            hs.append([('session', n1, [('render_raise',)]), ('session', n2, [('render', p) for p in PROBES])])
    for _ in range(400 if ctx.quick() else 10000):
        hs.append(gen_history(rng, 4 if ctx.quick() else 6))
    with mp.Pool(core.NPROC, maxtasksperchild=20) as pool:
        obs = pool.map(history_worker, hs, chunksize=4)
    nontriv = 0
    model_reqs, model_meta = [], []
    raised = 0
    for h, ob in zip(hs, obs):
        ctx.count('evaluations')
        seen_raise = False
        for (kind, name, arg, out, ls, sc) in ob:
            ctx.count('steps')
            inp = {'history': h, 'step': [kind, name, arg]}
            if ls != default_lists:
                ctx.failing.append({'interface': 'oracle(history)', 'input': inp, 'what': 'after the context exited the token sets are not the defaults',
                                    'observed': ls, 'expected': default_lists, 'kf': None})
            if sc != default_scratch:
                ctx.failing.append({'interface': 'oracle(history)', 'input': inp, 'what': 'process-global parser state differs from a fresh interpreter after this step',
                                    'observed': sc, 'expected': default_scratch, 'kf': None})
            if kind == 'raise':
                seen_raise = seen_raise or out == 'raised'
                raised += out == 'raised'
                continue
            want = ref[(kind, name, arg)][0]
            if out != want:
                ctx.failing.append({'interface': 'oracle(history)', 'input': inp, 'what': 'output after this history differs from the output in a fresh interpreter',
                                    'observed': out, 'expected': want, 'kf': None})
            if kind == 'render' and name in ('html', 'html_nohtml') and seen_raise:
                model_reqs.append([41, 0 if name == 'html' else 1, False, False, arg])
                model_meta.append((inp, out))
        if seen_raise:
            nontriv += 1
    ctx.cov['raising_parses_that_raised'] = raised
    if ctx.driver_ok and model_reqs:
        for (inp, out), m in zip(model_meta, core.model_map(model_reqs)):
            if core.dstr(m) != out:
                ctx.disagreements.append({'interface': 'X-hist', 'input': inp, 'model': core.dstr(m), 'impl': out})
    # the lists inside a context, from a fresh interpreter, against the regenerated configuration the model uses
    ctx.cov['lists_inside_contexts'] = {k: v for k, v in inside_ref.items()}
    ctx.count('distinct_nontrivial', nontriv)
    ctx.sample({'history': hs[0], 'observations(kind,renderer,arg,output,lists,scratch)': [list(o[:4]) for o in obs[0]][:3]})


def replay(ctx, obj):
    run(ctx)
