"""C01 — parsing and rendering are total and terminate for every input."""
import itertools
import multiprocessing as mp
import random
import signal

from harness import core, docgen, inputs, xdoc

GEN = ['gen_tables', 'gen_regex', 'gen_config', 'gen_escapes']
THEOREMS = ['C01_fuel_suffices', 'C01_readers_progress', 'C01_renderers_total']
TRUSTED = ['the parser and renderer models (total Gallina functions; partial Python operations are totalised with sentinels, so an IndexError in the '
           'code shows up as a model/implementation disagreement, not as a theorem failure)',
           'the per-input alarm of the oracle (10 s) is the only watch on the running time of CPython\'s regex engine and on the recursion limit']
ASSUMPTIONS = ['PARTIAL: proved are (1) the fuel of the model\'s dispatch loop is never what ends it (the result is the same for every larger fuel), '
               '(2) every block reader except the link-definition scanner consumes at least one line, (3) the renderer models are total functions of the tree; '
               'that the implementation never raises is decided by the oracle over all 11 renderers and by correspondence of outcomes',
               'Jira, XWiki, Pygments, Toc, GithubWiki, MathJax, Ast: oracle only (no parser-side model for XWiki/GithubWiki tokens)']

CONFIGS = [
    ('mistletoe.html_renderer', 'HtmlRenderer', {}),
    ('mistletoe.html_renderer', 'HtmlRenderer', {'process_html_tokens': False, 'html_escape_double_quotes': True, 'html_escape_single_quotes': True}),
    ('mistletoe.markdown_renderer', 'MarkdownRenderer', {}),
    ('mistletoe.markdown_renderer', 'MarkdownRenderer', {'max_line_length': 1, 'normalize_whitespace': True}),
    ('mistletoe.markdown_renderer', 'MarkdownRenderer', {'max_line_length': 10}),
    ('mistletoe.markdown_renderer', 'MarkdownRenderer', {'max_line_length': 3}),
    ('mistletoe.latex_renderer', 'LaTeXRenderer', {}),
    ('mistletoe.ast_renderer', 'AstRenderer', {}),
    ('mistletoe.contrib.toc_renderer', 'TocRenderer', {}),
    ('mistletoe.contrib.github_wiki', 'GithubWikiRenderer', {}),
    ('mistletoe.contrib.mathjax', 'MathJaxRenderer', {}),
    ('mistletoe.contrib.pygments_renderer', 'PygmentsRenderer', {}),
    ('mistletoe.contrib.jira_renderer', 'JiraRenderer', {}),
    ('mistletoe.contrib.xwiki20_renderer', 'XWiki20Renderer', {}),
]


class Timeout(Exception):
    pass


def _alarm(signum, frame):
    raise Timeout()


def worker(args):
    text, form = args
    import importlib
    import io
    import mistletoe
    bad = []
    signal.signal(signal.SIGALRM, _alarm)
    for mod, cls, kw in CONFIGS:
        R = getattr(importlib.import_module(mod), cls)
        arg = text if form == 0 else (text.splitlines(keepends=True) if form == 1 else io.StringIO(text))
        signal.alarm(10)
        try:
            with R(**kw) as r:
                out = r.render(mistletoe.Document(arg))
            if not isinstance(out, str):
                bad.append((cls, kw, 'returned %s instead of a string' % type(out).__name__))
        except Timeout:
            bad.append((cls, kw, 'did not finish within 10 s'))
        except RecursionError:
            if nesting(text) <= 100:
                bad.append((cls, kw, 'RecursionError on an input nested <= 100 levels'))
        except RuntimeError as e:
            if not (cls in ('LaTeXRenderer', 'MathJaxRenderer') and 'delimiter' in str(e)):
                bad.append((cls, kw, 'RuntimeError: %s' % e))
        except Exception as e:
            bad.append((cls, kw, '%s: %s' % (type(e).__name__, e)))
        finally:
            signal.alarm(0)
    return bad


def nesting(text):
    return max((len(l) - len(l.lstrip('> -*+0123456789.)\t')) for l in text.split('\n')), default=0)


def small_alphabet(n):
    alpha = ['a', ' ', '\n', '>', '-', '*', '_', '`', '[', ']', '#', '1.']
    for k in range(1, n + 1):
        for t in itertools.product(alpha, repeat=k):
            yield ''.join(t)


def run(ctx, only=None):
    ctx.cov['rule'] = ('inputs (652 spec examples and every prefix of them, mutations and splices, opener + long unclosed run growth probes, random strings over the Markdown-significant alphabet with tabs and non-ASCII, generated '
                       'documents, all strings up to length %d over a 12-symbol alphabet, deep nesting up to 100) x 14 renderer configurations x {str, list of '
                       'lines, file object}; non-trivial = longer than 3 characters; distinct = distinct inputs' % (4 if ctx.quick() else 5))
    rng = random.Random(ctx.seed)
    n = 2500 if ctx.quick() else 40000
    texts = ['**a****b*', '>', '-', '> ', '- ', '>\n', '-\n', '1.', '`' * 45 + 'x' + '`' * 45, '|!"\'=+#$%&()*,-./:;<>?@[\\]^_`{}~0123456789']
    texts += ['`' + '|!"\'=+#$%&()*,-./:;<>?@[\\]^_{}~0123456789' + '`']
    texts += inputs.mixed_stream(rng, n) + [docgen.gen_doc(rng, marker_words=True)[0] for _ in range(n // 5)]
    texts += ['>' * d + ' x' for d in (10, 50, 100)] + ['- ' * 40 + 'x', '*' * 200 + 'a' + '*' * 200, '[' * 150 + 'a' + ']' * 150, '<' * 300]
    texts += list(small_alphabet(4 if ctx.quick() else 5))
    # every prefix of every specification example: constructs cut off at the end of the input (unclosed links, titles, fences, tags ...)
    pref = set()
    for t in inputs.spec_texts():
        step = 1 if (len(t) <= 120 or not ctx.quick()) else 3
        for i in range(1, len(t), step):
            pref.add(t[:i])
            if t[i - 1] != '\n':
                pref.add(t[:i] + '\n')
    texts += sorted(pref)
    ctx.cov['spec_example_prefixes'] = len(pref)
    # growth probes: an opener followed by a long run that never closes (what catastrophic backtracking or deep recursion needs)
    openers = ['<b ', '<a', '<a href="x" ', '</b', '<!--', '<?', '<![CDATA[', '<!A', '[', '![', '[a](', '[a](<', '[a](b "', '[a]: ', '[a]: <', '[a]: /u "', '*', '_', '**', '`', '``',
               '~~', '&', '&#', '\\', '|', '> ', '- ', '1. ', '# ', '```', '    ', '<http://', '<a@', '(', '"', "'"]
    fillers = ['a', 'a ', ' ', 'a="b" ', "a='b' ", 'a=b ', '\\', '[', ']', '(', ')', '*', '_', '`', '<', '>', '&', '-', '\n', ' \n', 'a\n', '> ', '- ', '*a', '_a ', '[a](', '![', 'a*', '\\*']
    probes = []
    for o in openers:
        for f in fillers:
            for n in ((24, 60) if ctx.quick() else (24, 60, 200)):
                probes.append(o + f * n)
                probes.append('see ' + o + f * n + ' for details')
    texts += probes
    ctx.cov['growth_probes'] = len(probes)
    jobs = [(t, i % 3) for i, t in enumerate(texts)]
    with mp.Pool(core.NPROC) as pool:
        res = pool.map(worker, jobs, chunksize=25)
    nontriv = 0
    for (text, form), bad in zip(jobs, res):
        ctx.count('evaluations')
        if len(text) > 3:
            nontriv += 1
        for (cls, kw, what) in bad:
            ctx.failing.append({'interface': 'oracle', 'input': {'text': text, 'renderer': cls, 'options': kw, 'form': ['str', 'list', 'file'][form]},
                                'what': '%s %s' % (cls, what), 'kf': None})
    ctx.cov['renderer_configurations'] = len(CONFIGS)
    ctx.count('distinct_nontrivial', nontriv)
    ctx.sample({'text': texts[20], 'configurations': [c[1] for c in CONFIGS]})
    # outcome correspondence: where the implementation raises, X-doc reports a disagreement (the model always returns a tree)
    xdoc.run(ctx, texts[:1200 if ctx.quick() else 20000])


def replay(ctx, obj):
    run(ctx)
