"""C12 — the token tree is well-formed and its generic views are faithful."""
import json
import multiprocessing as mp
import random

from harness import core, docgen, inputs, trees, xdoc

GEN = ['gen_tables', 'gen_regex', 'gen_config', 'gen_escapes', 'gen_blockstart']
THEOREMS = ['C12_heading_start_is_the_source', 'C12_shape', 'C12_heading_level_range', 'C12_traverse', 'C12_traverse_once', 'C12_true_parent', 'C12_list_start_agrees']
TRUSTED = ['the parser model (tied by X-doc) for the shape theorem; Model/Traverse.v: hand-written model of utils.traverse (tied by running the real '
           'generator on real object graphs with every argument combination)',
           'the independent walker of the real object graph (harness side): parent links, reachability, attribute ranges, AST mirror']
ASSUMPTIONS = ['attribute ranges (heading level 1-6, list start = int(first leader)) and the JSON text of the AST renderer are decided by the oracle '
               'on real trees (json.loads of the real output is compared with the walker\'s own view of the tree)',
               'token sets: Html, Markdown, LaTeX (XWiki token classes have no constructor in the model: oracle only)']

CLASS_IDS = {}


def utree(tok, index):
    """generic view of the real object graph + path index: id(token) -> path"""
    def go(t, path):
        index[id(t)] = path
        name = type(t).__name__
        CLASS_IDS.setdefault(name, len(CLASS_IDS) + 1)
        ch = t.children
        return [CLASS_IDS[name], [go(c, path + [i]) for i, c in enumerate(ch or [])]]
    return go(tok, [])


def walk_checks(doc):
    """independent walk: parent links, no object reachable twice, attribute ranges, kinds of children"""
    problems = []
    seen = set()

    def go(t, parent):
        if id(t) in seen:
            problems.append('token reachable twice: ' + type(t).__name__)
            return
        seen.add(id(t))
        name = type(t).__name__
        if parent is not None and t.parent is not parent:
            problems.append('%s: parent link does not name the token that lists it' % name)
        if name in ('Heading',) and not (1 <= t.level <= 6):
            problems.append('heading level %r' % (t.level,))
        if name == 'SetextHeading' and t.level not in (1, 2):
            problems.append('setext level %r' % (t.level,))
        if name == 'List':
            ld = t.children[0].leader if t.children else ''
            want = None if len(ld) == 1 else int(ld[:-1])
            if t.start != want:
                problems.append('list start %r does not agree with its first marker %r' % (t.start, ld))
        if name == 'Table' and 'header' in vars(t):
            go(t.header, None)
        for c in (t.children or ()):
            go(c, t)
    go(doc, None)
    return problems


def ast_mirror(doc, text):
    """the AST renderer's JSON vs the walker's own view"""
    from mistletoe.ast_renderer import AstRenderer

    def shape(t):
        return [type(t).__name__, None if t.children is None else [shape(c) for c in t.children]]

    def jshape(n):
        return [n['type'], [jshape(c) for c in n['children']] if 'children' in n else None]
    with AstRenderer() as r:
        from mistletoe import Document
        d = Document(text)
        out = r.render(d)
        try:
            j = json.loads(out)
        except Exception as e:
            return 'AST output is not valid JSON: %s' % e
        if jshape(j) != shape(d):
            return 'AST JSON does not mirror the token tree'
    return None


def worker(args):
    text, cid, seed = args
    import random as _r
    from mistletoe import Document, block_token, span_token
    from mistletoe.utils import traverse
    rng = _r.Random(seed)
    res = {}
    try:
        with xdoc.renderer(cid):
            doc = Document(text)
            res['problems'] = walk_checks(doc)
            try:
                res['tree'] = trees.dump(doc)
            except trees.DumpError as e:
                res['tree'] = None
            index = {}
            res['utree'] = utree(doc, index)
            klass_name = rng.choice([None, None, 'BlockToken', 'SpanToken', 'Paragraph', 'RawText', 'ListItem', 'Emphasis'])
            klass = None
            if klass_name:
                klass = getattr(block_token, klass_name, None) or getattr(span_token, klass_name)
            depth = rng.choice([None, None, 0, 1, 2, 3])
            incl = rng.random() < 0.5
            got = []
            for r in traverse(doc, klass=klass, depth=depth, include_source=incl):
                got.append([index[id(r.node)], CLASS_IDS[type(r.node).__name__], r.depth,
                            None if r.parent is None else index[id(r.parent)]])
            allowed = None
            if klass is not None:
                allowed = [cid_ for name, cid_ in CLASS_IDS.items()
                           if issubclass(getattr(block_token, name, None) or getattr(span_token, name, None) or
                                         __import__('mistletoe.markdown_renderer', fromlist=['x']).__dict__.get(name) or
                                         __import__('mistletoe.latex_token', fromlist=['x']).__dict__.get(name), klass)]
            res['trav'] = (klass_name, allowed, depth, incl, got)
        if cid == 1:
            res['ast'] = ast_mirror(doc, text)
    except Exception as e:
        res['error'] = '%s: %s' % (type(e).__name__, e)
    return res


def run(ctx, only=None):
    ctx.cov['rule'] = ('inputs (spec examples, mutations, random, generated documents) x token sets of Html, Html without raw HTML, Markdown, LaTeX; '
                       'non-trivial = the parsed tree has depth >= 3; distinct = distinct (text, token set)')
    rng = random.Random(ctx.seed)
    n = 2500 if ctx.quick() else 40000
    texts = inputs.mixed_stream(rng, n) + [docgen.gen_doc(rng)[0] for _ in range(n // 3)]
    # designed: scalar attributes at the edge of their range - headings of five and six '#' behind the permitted indentation, at every depth;
    # ordered lists that start at 0, at the largest number, with leading zeros
    texts += ['   ###### six\n', '  ##### five\n', ' ###### six ######\n', '> -   ###### x\n', '- a\n\n   ##### b\n', '>   ###### q\n>  ##### r\n',
              '0. zero\n', '999999999. big\n', '007) bond\n1) next\n', '> 0) a\n> 1) b\n', '- 00. x\n']
    jobs = [(t, c, rng.randint(0, 10 ** 9)) for t in texts for c in (0, 1, 2, 3)]
    with mp.Pool(core.NPROC) as pool:
        res = pool.map(worker, jobs, chunksize=50)
    reqs_shape, meta_shape, reqs_trav, meta_trav = [], [], [], []
    nontriv = set()

    def depth_of(u):
        return 1 + max([depth_of(c) for c in u[1]], default=0)
    for (text, cid, _s), r in zip(jobs, res):
        ctx.count('evaluations')
        if 'error' in r:
            ctx.count('impl_exceptions')
            continue
        inp = {'text': text, 'token_set': xdoc.CFG[cid]}
        for p in r['problems']:
            ctx.failing.append({'interface': 'oracle(walker)', 'input': inp, 'what': p, 'kf': None})
        if r.get('ast'):
            ctx.failing.append({'interface': 'oracle(AST)', 'input': inp, 'what': r['ast'], 'kf': None})
        if depth_of(r['utree']) >= 3:
            nontriv.add((text, cid))
        if r['tree'] is not None:
            reqs_shape.append([120, r['tree']])
            meta_shape.append(inp)
        klass_name, allowed, depth, incl, got = r['trav']
        reqs_trav.append([12, r['utree'], [] if allowed is None else [allowed], [] if depth is None else [depth], incl])
        meta_trav.append((inp, klass_name, depth, incl, got))
        # the property on the real generator: each yielded node once, true parent, true depth
        paths = [tuple(g[0]) for g in got]
        if len(paths) != len(set(paths)):
            ctx.failing.append({'interface': 'oracle(traverse)', 'input': inp, 'what': 'traverse yielded a token twice', 'kf': None})
        # ... and exactly the reachable tokens of the asked class within the asked depth, level by level (written here from the
        # generic view of the tree, not from the generator): nothing is missed, nothing else is yielded
        want, level = [], [([], r['utree'])]
        if incl and (allowed is None or r['utree'][0] in allowed):
            want.append([])
        dd = 0
        while level and (depth is None or dd < depth):
            dd += 1
            nxt = []
            for pth, u in level:
                for i, ch in enumerate(u[1]):
                    if allowed is None or ch[0] in allowed:
                        want.append(pth + [i])
                    nxt.append((pth + [i], ch))
            level = nxt
        if [list(p_) for p_ in paths] != want:
            ctx.failing.append({'interface': 'oracle(traverse)', 'input': dict(inp, klass=klass_name, depth=depth, include_source=incl),
                                'what': 'traverse does not yield exactly the reachable tokens of the class within the depth, level by level',
                                'observed': [list(p_) for p_ in paths][:30], 'expected': want[:30], 'kf': None})
        for (path, _c, d, ppath) in got:
            if d != len(path) or (path and ppath != path[:-1]) or (not path and ppath is not None):
                ctx.failing.append({'interface': 'oracle(traverse)', 'input': inp, 'what': 'traverse reports a wrong parent or depth', 'observed': [path, d, ppath], 'kf': None})
                break
    if ctx.driver_ok:
        for inp, ok in zip(meta_shape, core.model_map(reqs_shape)):
            if ok != 1:
                ctx.failing.append({'interface': 'oracle(wf_shape)', 'input': inp, 'what': 'the parsed tree violates the shape invariant (kinds of children)', 'kf': None})
        for (inp, klass_name, depth, incl, got), m in zip(meta_trav, core.model_map(reqs_trav)):
            mm = [[p, c, d] for (p, c, d) in m]
            if mm != [[g[0], g[1], g[2]] for g in got]:
                ctx.disagreements.append({'interface': 'X-traverse', 'input': dict(inp, klass=klass_name, depth=depth, include_source=incl),
                                          'model': mm[:20], 'impl': [[g[0], g[1], g[2]] for g in got][:20]})
    ctx.count('distinct_nontrivial', len(nontriv))
    ctx.sample({'text': texts[5], 'traverse(klass,allowed,depth,include_source,yielded[path,class,depth,parent])': res[20].get('trav')})
    xdoc.run(ctx, texts[:800 if ctx.quick() else 10000])


def replay(ctx, obj):
    run(ctx)
