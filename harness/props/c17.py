"""C17 — LaTeX output keeps its group/environment structure whatever the text says."""
import multiprocessing as mp
import re
import random

from harness import core, inputs, trees

GEN = ['gen_latex']
THEOREMS = ['C17_groups_envs_balanced', 'C17_body_balanced', 'C17_items_ok', 'C17_text_escaped', 'C17_url_safe',
            'C17_verb_delimiter', 'C17_raw_args_refuted']
TRUSTED = ['hand-written model coq/theories/Model/LatexRenderer.v of latex_renderer.py (structure of the templates); the escape table, '
           'URL safe set and replace chain, hole fillers and \\verb delimiter candidates are REGENERATED from the source on every run '
           '(harness/gen/gen_latex.py)',
           'Base/PyStr.v re-implements urllib.parse.quote (differentially tested on every code point)',
           'the tree dumper/loader harness/trees.py',
           'Spec/LatexSpec.v:check_latex (string-level oracle; not itself verified)']
ASSUMPTIONS = ['verbatim regions (\\verb, lstlisting bodies) and Math tokens are set aside, as the property says',
               'inside \\href{..}/\\url{..} the characters & _ ~ are left raw by design of escape_url (hyperref reads the argument verbatim); '
               'they are not counted as violations',
               'code points are Unicode scalar values']
SPECIALS = set('$#{}&_%^\\')


def plain(s):
    return not (set(s) & SPECIALS)


def neutralise(t, kf):
    """verbatim/math material -> alphanumeric placeholders; with kf=True also
    the two attributes of the recorded findings.  Returns the set of finding
    ids whose call site received a non-plain attribute."""
    hit = set()
    name = type(t).__name__
    if name == 'InlineCode':
        t.children[0].content = 'X'
    elif name in ('BlockCode', 'CodeFence'):
        t.children[0].content = 'X\n'
        if name == 'CodeFence' and not plain(t.language):
            hit.add('kf_latex_code_language')
            if kf:
                t.language = 'L'
    elif name == 'Math':
        t.content = 'X'
    elif name == 'Image' and not plain(t.src):
        hit.add('kf_latex_image_src')
        if kf:
            t.src = 'S'
    if name == 'Table' and 'header' in vars(t):
        hit |= neutralise(t.header, kf)
    for c in (t.children or ()):
        hit |= neutralise(c, kf)
    return hit


def render_pair(make_tree):
    """outputs: original, verbatim-neutralised, verbatim+finding-neutralised"""
    from mistletoe.latex_renderer import LaTeXRenderer
    outs = []
    hit = set()
    for mode in (None, False, True):
        with LaTeXRenderer() as r:
            t = make_tree()
            if mode is not None:
                hit = neutralise(t, mode)
            try:
                outs.append(r.render(t))
            except RuntimeError as e:
                if 'delimiter' in str(e):
                    outs.append(None)
                else:
                    raise
    return outs, sorted(hit)


def parse_worker(text):
    from mistletoe import Document
    from mistletoe.latex_renderer import LaTeXRenderer
    try:
        with LaTeXRenderer():
            doc0 = Document(text)
            w = trees.dump(doc0)
            # the delimiters of a math span are its own: one or two dollars, the same number again, no dollar between them
            # (what is copied into the output must close the math mode it opens)
            bad_math = []

            def walk(t):
                if type(t).__name__ == 'Math' and not re.fullmatch(r'(\${1,2})[^$]+\1', t.content, re.S):
                    bad_math.append(t.content)
                for c in (t.children or ()):
                    walk(c)
            walk(doc0)
            if bad_math:
                return w, None, None, 'MATH ' + repr(bad_math[:3])

        def mk():
            return Document(text)
        outs, hit = render_pair(mk)
        return w, outs, hit, None
    except Exception as e:
        return None, None, None, '%s: %s' % (type(e).__name__, e)


def load_worker(w):
    try:
        outs, hit = render_pair(lambda: trees.load(w))
        return outs, hit, None
    except Exception as e:
        return None, None, '%s: %s' % (type(e).__name__, e)


def str_worker(block):
    from mistletoe.latex_renderer import LaTeXRenderer
    from mistletoe import span_token
    s = ''.join(chr(c) for c in range(block * 4096, block * 4096 + 4096) if not 0xD800 <= c <= 0xDFFF)
    r = LaTeXRenderer.__new__(LaTeXRenderer)
    return s, [r.render_raw_text(span_token.RawText(s)), LaTeXRenderer.escape_url(s)]


REASON = {1: 'brace groups / environments are not properly nested', 2: 'a LaTeX-special character from document text appears raw',
          3: 'malformed \\begin/\\end'}


def special_rich(w):
    if isinstance(w, str):
        return bool(set(w) & SPECIALS)
    if isinstance(w, list):
        return any(special_rich(x) for x in w)
    return False


def judge(ctx, items, label):
    """items: (input-descr, wire tree, outs, hit)"""
    reqs = [[17, w] for (_d, w, _o, _h) in items]
    chk1 = [[171, o[1] or ''] for (_d, _w, o, _h) in items]
    chk2 = [[171, o[2] or ''] for (_d, _w, o, _h) in items]
    if not ctx.driver_ok:
        return
    mres = core.model_map(reqs)
    c1 = core.model_map(chk1)
    c2 = core.model_map(chk2)
    for (d, w, outs, hit), m, a, b in zip(items, mres, c1, c2):
        impl = outs[0]
        mod = core.dstr(m[1]) if m[0] == 1 else None
        if mod != impl:
            ctx.disagreements.append({'interface': 'X-latex(%s)' % label, 'input': d, 'model': mod, 'impl': impl})
        if a != 0:
            if b == 0 and hit:
                ctx.failing.append({'interface': 'oracle check_latex', 'input': d, 'what': REASON.get(a, str(a)),
                                    'observed': outs[0], 'kf': hit[0]})
            else:
                ctx.failing.append({'interface': 'oracle check_latex', 'input': d, 'what': REASON.get(b or a, str(b or a)),
                                    'observed': outs[0], 'kf': None})


def run(ctx, only=None):
    ctx.cov['rule'] = ('parsed trees (spec examples, mutations, random, special-character-rich generated documents) and loaded random trees under '
                       'LaTeXRenderer; non-trivial = the tree holds a string with one of $ # { } & _ % ^ \\; distinct = distinct trees')
    rng = random.Random(ctx.seed)
    n_parsed = 3000 if ctx.quick() else 40000
    n_loaded = 12000 if ctx.quick() else 200000
    texts = ['\\\\{', 'Foo\\\\\n===', '![a](b}c)', '```a]b{\nx\n```', '[x](/a_b&c%7B)', '`|!"\'=+#$%&()*,-./:;<>?@[\\]^_{}~0123456789`',
             # dollars that do not pair up as a math span: math mode must not be left open
             '$$x$', 'costs $$5$ each', '$$$', 'a $$$ b', '# h $$x$ y', '- $$x$\n- $ $', '| a$$b$ |\n| - |\n', '$x$$', '$ $$ $', '$$\n$']
    texts += inputs.mixed_stream(rng, n_parsed) + [inputs.hostile_doc(rng) for _ in range(n_parsed)]
    if only is not None:
        texts = only
    nontriv = set()
    with mp.Pool(core.NPROC) as pool:
        parsed = pool.map(parse_worker, texts, chunksize=50)
    items = []
    for text, (w, outs, hit, err) in zip(texts, parsed):
        ctx.count('evaluations')
        if err is not None and err.startswith('MATH '):
            ctx.failing.append({'interface': 'oracle(math delimiters)', 'input': {'text': text},
                                'what': 'a math span does not end with the dollars it begins with (math mode is left open in the output)', 'observed': err[5:], 'kf': None})
            continue
        if err is not None:
            ctx.count('impl_exceptions')
            continue
        items.append(({'text': text}, w, outs, hit))
        if special_rich(w):
            nontriv.add(text)
    judge(ctx, items, 'parsed')
    ctx.cov['parsed_inputs'] = len(texts)
    if items:
        ctx.sample({'stream': 'parsed', 'text': items[-1][0]['text'], 'latex': items[-1][2][0]})
    if only is not None:
        return
    ws = [trees.rdoc(rng, html=False, math=True) if rng.random() < 0.7 else trees.rblock(rng, 2, html=False, math=True)
          for _ in range(n_loaded)]
    with mp.Pool(core.NPROC) as pool:
        loaded = pool.map(load_worker, ws, chunksize=200)
    items = []
    for w, (outs, hit, err) in zip(ws, loaded):
        ctx.count('evaluations')
        ctx.count('loaded_trees')
        if err is not None:
            ctx.disagreements.append({'interface': 'X-latex(loaded)', 'input': {'tree': w}, 'model': 'a string or the documented refusal',
                                      'impl': 'raised ' + err})
            continue
        items.append(({'tree': w}, w, outs, hit))
        if special_rich(w):
            nontriv.add(repr(w))
    judge(ctx, items, 'loaded')
    ctx.sample({'stream': 'loaded', 'tree': ws[0], 'latex': loaded[0][0][0] if loaded[0][0] else None})
    ctx.count('distinct_nontrivial', len(nontriv))
    blocks = list(range(0x110000 // 4096))
    with mp.Pool(core.NPROC) as pool:
        sres = pool.map(str_worker, blocks)
    reqs = []
    for s, res in sres:
        reqs += [[170, 0, s], [170, 1, s]]
    if ctx.driver_ok:
        mres = core.model_map(reqs)
        k = 0
        for s, res in sres:
            for j, r in enumerate(res):
                if core.dstr(mres[k]) != r:
                    ctx.disagreements.append({'interface': 'X-str(latex)', 'input': {'function': j, 'block_start': ord(s[0])},
                                              'model': core.dstr(mres[k])[:80], 'impl': r[:80]})
                k += 1
    ctx.cov['code_points_through_escapers'] = sum(len(s) for s, _ in sres)
    ctx.cov['exhaustive_code_points'] = True


def replay(ctx, obj):
    inp = obj['input']
    if 'text' in inp:
        run(ctx, only=[inp['text']])
    else:
        run(ctx)
