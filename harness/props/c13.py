"""C13 — every block token reports the source line on which it starts."""
import multiprocessing as mp
import random

from harness import core, inputs, xdoc

GEN = ['gen_tables', 'gen_regex', 'gen_config', 'gen_escapes']
THEOREMS = ['C13_entries_start_at_their_line', 'C13_line_numbers_increase', 'C13_quote_aligned', 'C13_item_aligned', 'C13_fragment_line_numbers', 'C13_fragment_sibling_offset', 'C13_outline_line_numbers', 'C13_outline_one_line_per_node']
TRUSTED = ['the parser model (Model/Block.v ...) tied by X-doc, which compares the line number of every block token',
           'the line-recording document generator (oracle side): it writes each block itself and records the line it wrote it on']
ASSUMPTIONS = ['PARTIAL: the theorems cover the dispatch loop (entries start at their recorded line, strictly increasing) and the alignment of the '
               'content buffers of quotes and list items; their composition over nesting is decided by the oracle']

WORDS = ['alpha', 'beta', 'gamma', 'delta', 'lorem', 'ipsum']


class G:
    """blocks are generated as (lines, nodes) with nodes = [(kind, relative_line, children_nodes)]"""

    def __init__(self, rng):
        self.rng = rng
        self.kinds = {}

    def words(self, n=3):
        return ' '.join(self.rng.choice(WORDS) for _ in range(self.rng.randint(1, n)))

    def leaf(self):
        rng = self.rng
        k = rng.choice(['para', 'para', 'atx', 'setext', 'fence', 'indented', 'hr', 'html', 'table'])
        self.kinds[k] = self.kinds.get(k, 0) + 1
        if k == 'para':
            n = rng.randint(1, 3)
            return [self.words() for _ in range(n)], [('Paragraph', 0, [])]
        if k == 'atx':
            return ['#' * rng.randint(1, 6) + ' ' + self.words()], [('Heading', 0, [])]
        if k == 'setext':
            n = rng.randint(1, 2)
            return [self.words() for _ in range(n)] + [rng.choice(['===', '---'])], [('SetextHeading', 0, [])]
        if k == 'fence':
            body = [rng.choice(['code', '', '  x']) for _ in range(rng.randint(0, 3))]
            return ['```'] + body + ['```'], [('CodeFence', 0, [])]
        if k == 'indented':
            return ['    code %d' % i for i in range(rng.randint(1, 2))], [('BlockCode', 0, [])]
        if k == 'hr':
            return [rng.choice(['***', '___'])], [('ThematicBreak', 0, [])]
        if k == 'html':
            return ['<div>', 'x', '</div>'], [('HtmlBlock', 0, [])]
        ncol = rng.randint(1, 3)
        nrow = rng.randint(0, 2)
        row = '| ' + ' | '.join('c' for _ in range(ncol)) + ' |'
        sep = '| ' + ' | '.join('---' for _ in range(ncol)) + ' |'
        cells = lambda ln: [('TableCell', ln, []) for _ in range(ncol)]  # noqa: E731
        nodes = [('Table', 0, [('TableRow', 0, cells(0))] + [('TableRow', 2 + i, cells(2 + i)) for i in range(nrow)])]
        body = [row] * nrow
        if nrow and rng.random() < 0.3:
            # a body line made of pipes and blanks only is a row like any other (of empty cells)
            self.kinds['table_row_of_pipes_only'] = self.kinds.get('table_row_of_pipes_only', 0) + 1
            body[rng.randrange(nrow)] = '|' + rng.choice([' |', '  |', '|'][:2 if ncol > 1 else 3]) * ncol if ncol > 1 else rng.choice(['|', '| |', '||'])
        return [row, sep] + body, nodes

    def shift(self, nodes, d):
        return [(k, ln + d, self.shift(ch, d)) for (k, ln, ch) in nodes]

    def blocks(self, depth, n, first_plain=False):
        rng = self.rng
        lines, nodes = [], []
        prev_kind = None
        for i in range(n):
            r = rng.random()
            if first_plain and i == 0:
                bl, bn = [self.words()], [('Paragraph', 0, [])]
            elif depth < 3 and r < 0.2:
                bl, bn = self.quote(depth)
            elif depth < 3 and r < 0.4 and prev_kind != 'list':
                bl, bn = self.list_(depth)
                prev_kind = 'list'
            elif r < 0.47:
                self.kinds['definition'] = self.kinds.get('definition', 0) + 1
                bl, bn = ['[lab%d]: /url' % rng.randint(0, 9)], []       # a definition: no token
            else:
                bl, bn = self.leaf()
                while prev_kind in ('BlockCode', 'list') and bn[0][0] == 'BlockCode':     # would merge with / be absorbed by what precedes
                    bl, bn = self.leaf()
            if not (bn and bn[0][0] == 'List'):
                prev_kind = bn[0][0] if bn else None
            if lines:
                # a blank line between blocks (a setext underline / paragraph must not merge with what follows); now and then two or three of them
                gap = 1 if rng.random() < 0.85 else rng.randint(2, 3)
                if gap > 1:
                    self.kinds['several_blank_lines_between_blocks'] = self.kinds.get('several_blank_lines_between_blocks', 0) + 1
                lines += [''] * gap
            nodes += self.shift(bn, len(lines))
            lines += bl
        return lines, nodes

    def quote(self, depth):
        rng = self.rng
        self.kinds['quote'] = self.kinds.get('quote', 0) + 1
        inner, nodes = self.blocks(depth + 1, rng.randint(1, 3))
        # '>' without the optional space would swallow one space of a line that begins with spaces
        marker = rng.choice(['> ', '>']) if not any(l.startswith(' ') for l in inner) else '> '
        lines = [(marker + l) if l else '>' for l in inner]
        # a lazy continuation line: drop the marker on a line that continues a paragraph
        for i in range(1, len(lines)):
            if rng.random() < 0.15 and inner[i] and inner[i - 1] and inner[i][0].isalpha() and inner[i - 1][0].isalpha() \
                    and inner[i] not in ('===', '---') and (i + 1 >= len(inner) or inner[i + 1] not in ('===', '---')):
                lines[i] = inner[i]
                self.kinds['lazy_line'] = self.kinds.get('lazy_line', 0) + 1
        # a quote may begin with marker-only lines: its blocks then start that many lines below the quote's own line
        if rng.random() < 0.2:
            k = rng.randint(1, 2)
            self.kinds['quote_blank_first'] = self.kinds.get('quote_blank_first', 0) + 1
            lines = [rng.choice(['>', '> '])] * k + lines
            nodes = self.shift(nodes, k)
        return lines, [('Quote', 0, nodes)]

    def list_(self, depth):
        rng = self.rng
        self.kinds['list'] = self.kinds.get('list', 0) + 1
        ordered = rng.random() < 0.4
        bullet = rng.choice('-*+')
        n = rng.randint(1, 3)
        lines, items = [], []
        for i in range(n):
            marker = ('%d.' % (i + 1)) if ordered else bullet
            if rng.random() < 0.08 and (n > 1 or depth > 0):
                # an empty item: the marker alone on its line, nothing below it
                self.kinds['empty_item'] = self.kinds.get('empty_item', 0) + 1
                items.append(('ListItem', len(lines), []))
                lines.append(marker)
                if i < n - 1 and rng.random() < 0.4:
                    lines.append('')
                continue
            blank_first = rng.random() < 0.2
            inner, nodes = self.blocks(depth + 1, rng.randint(1, 2), first_plain=not blank_first)
            if inner and inner[0].startswith('    ') and blank_first is False:
                pass
            start = len(lines)
            if blank_first:
                self.kinds['item_blank_first'] = self.kinds.get('item_blank_first', 0) + 1
                width = len(marker) + 1
                lines.append(marker)
                off = 1
            else:
                pad = rng.randint(1, 3)
                width = len(marker) + pad
                lines.append(marker + ' ' * pad + inner[0])
                inner = inner[1:]
                off = 1
                nodes = nodes   # first block starts on the marker line: relative line 0
            for l in inner:
                lines.append((' ' * width + l) if l else '')
            if blank_first:
                items.append(('ListItem', start, self.shift(nodes, start + 1)))
            else:
                items.append(('ListItem', start, self.shift(nodes, start)))
            if i < n - 1 and rng.random() < 0.4:
                lines.append('')
        return lines, [('List', 0, items)]

    def document(self):
        rng = self.rng
        lines, nodes = self.blocks(0, rng.randint(1, 5))
        lead = rng.choice([0, 0, 1, 3])
        if lead:
            self.kinds['leading_blank_lines'] = self.kinds.get('leading_blank_lines', 0) + 1
        trail = rng.choice([0, 0, 0, 1, 2, 3])
        if trail:
            self.kinds['trailing_blank_lines'] = self.kinds.get('trailing_blank_lines', 0) + 1
        return '\n'.join([''] * lead + lines + [''] * trail) + '\n', self.shift(nodes, lead + 1)


def flat(nodes):
    out = []
    for (k, ln, ch) in nodes:
        out.append([k, ln])
        out += flat(ch)
    return out


def impl_lines(text):
    from mistletoe import Document, block_token
    from mistletoe.html_renderer import HtmlRenderer

    def walk(t):
        out = []
        for c in (t.children or ()):
            if isinstance(c, block_token.BlockToken):
                out.append([type(c).__name__, c.line_number])
                if type(c).__name__ == 'Table' and 'header' in vars(c):
                    out.append(['TableRow', c.header.line_number])
                    out += walk(c.header)
                out += walk(c)
        return out
    try:
        with HtmlRenderer():
            return walk(Document(text))
    except Exception as e:
        return 'EXC %s: %s' % (type(e).__name__, e)


def run(ctx, only=None):
    ctx.cov['rule'] = ('generated documents whose generator records the line of every block it writes (quotes, lists, items beginning with a blank '
                       'line, lazy continuation lines, definitions between blocks, leading blank lines, tables with rows and cells); '
                       'non-trivial = the document has a nested block; distinct = distinct documents')
    rng = random.Random(ctx.seed)
    n = 5000 if ctx.quick() else 100000
    g = G(rng)
    docs = [g.document() for _ in range(n)]
    with mp.Pool(core.NPROC) as pool:
        got = pool.map(impl_lines, [d[0] for d in docs], chunksize=100)
    nontriv = set()
    for (text, nodes), o in zip(docs, got):
        ctx.count('evaluations')
        exp = flat(nodes)
        if any(ch for (_k, _l, ch) in nodes):
            nontriv.add(text)
        if o != exp:
            kf = 'kf_setext_in_quote' if setext_in_quote(text) else None
            ctx.failing.append({'interface': 'oracle', 'input': {'text': text}, 'what': 'a block token does not report the line on which it starts',
                                'observed': o, 'expected': exp, 'kf': kf})
    ctx.cov['generator_choices'] = g.kinds
    ctx.count('distinct_nontrivial', len(nontriv))
    ctx.sample({'text': docs[0][0], 'blocks(kind,line)': flat(docs[0][1])})
    xdoc.run(ctx, [d[0] for d in docs[:1500 if ctx.quick() else 20000]] + inputs.spec_texts(), cfgs=(0, 2))


def setext_in_quote(text):
    import re
    return re.search(r'(^|\n)[ >]*>[ >]*(===|---)\n', text) is not None


def replay(ctx, obj):
    run(ctx)
