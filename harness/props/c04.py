"""C04 — quoting or list-indenting any document wraps its parse unchanged."""
import multiprocessing as mp
import random
import re

from harness import core, docgen, inputs, trees, xdoc

GEN = ['gen_tables', 'gen_regex', 'gen_config', 'gen_escapes', 'gen_blockstart']
THEOREMS = ['C04_block_starts_are_the_source', 'C04_list_markers_are_the_source', 'C04_quote_wraps', 'C04_quote_wraps_document', 'C04_configs_try_quote_first', 'C04_full_statement_refuted', 'C04_list_wraps', 'C04_list_law_hypotheses', 'C04_bounded_list']
TRUSTED = ['the parser model (tied by X-doc on the texts and on their embeddings)',
           'Proofs/ReFirst.v (first-character analysis) and Proofs/ReExact.v (greedy repetition over a maximal run) - both proved against Re/ReMatch.v - '
           'evaluated on the patterns regenerated from /repo',
           'vm_compute for the bounded sweeps']
ASSUMPTIONS = ['quote law: proved for every list of tab-free lines and every fuel, against the parse of the content WITH SETEXT HEADINGS OFF '
               '(what Quote.read does); the full statement (content = the plain parse) is refuted in the model by the witness "Foo\\n---" '
               '(known finding kf_setext_in_quote)',
               'list law: proved for every marker (+ - * N. N) with 1-9 digits), padding 1-4, every structured tab-free text (blank lines empty, last line not '
               'blank), every fuel and configuration, minus the thematic-break coincidences - at the level of the block tokenizer (C04_list_wraps); the three '
               'list patterns enter by their exact regenerated shape; the bounded kernel sweep through the inline phase and the oracle on the implementation remain',
               'marker ">" (no space) is applied only to texts none of whose lines starts with a space: the specification makes that space part of the marker']

QUOTE_MARKERS = ['> ', '>']
LIST_MARKERS = ['+', '-', '*', '1.', '1)', '7.', '12)', '0.', '123456789.']
OTHER_BREAKS = set('\r\x0b\x0c\x1c\x1d\x1e\x85  ')
THEMATIC = re.compile(r' {0,3}(?:([-_*])[ \t]*?)(?:\1[ \t]*?){2,}$')


def usable(text):
    if not text or '\t' in text or OTHER_BREAKS & set(text):
        return False
    lines = text.split('\n')
    if lines[-1] == '':
        lines.pop()
    return bool(lines) and lines[-1].strip() != ''


def tlines(text):
    lines = text.split('\n')
    if lines[-1] == '':
        lines.pop()
    return lines


def quote(text, marker):
    return ''.join(marker + l + '\n' for l in tlines(text))


def embed(text, marker, pad):
    lines = tlines(text)
    w = len(marker) + pad
    out = [marker + ' ' * pad + lines[0]]
    for l in lines[1:]:
        out.append(' ' * w + l if l.strip(' ') else l)     # blank in the specification's sense: spaces only (the text has no tabs)
    return ''.join(l + '\n' for l in out)


def excluded(text, marker, pad):
    """marker/thematic-break coincidences the specification resolves the other way: '- - -', '* * *' ..."""
    first = marker + ' ' * pad + tlines(text)[0]
    return bool(THEMATIC.match(first))


def parse(text, cid, setext=True):
    from mistletoe import Document, block_token
    with xdoc.renderer(cid):
        block_token.Paragraph.parse_setext = setext
        try:
            d = Document(text)
        finally:
            block_token.Paragraph.parse_setext = True
        return trees.dump(d)[1], [[k, v[0], v[1]] for k, v in d.footnotes.items()]


def worker(args):
    text, cid, variants = args
    out = []
    try:
        base, fn = parse(text, cid)
        base_ns = None
        for v in variants:
            if v[0] == 'q':
                emb = quote(text, v[1])
                got, gfn = parse(emb, cid)
                want = [[trees.TAGS['Quote'], base]]
                ok = got == want and gfn == fn
                kf = None
                if not ok:
                    if base_ns is None:
                        base_ns = parse(text, cid, setext=False)
                    if base_ns[0] != base and got == [[trees.TAGS['Quote'], base_ns[0]]] and gfn == base_ns[1]:
                        kf = 'kf_setext_in_quote'
                out.append((v, emb, ok, kf, got if not ok else None, want if not ok else None))
            else:
                emb = embed(text, v[1], v[2])
                got, gfn = parse(emb, cid)
                ok = (len(got) == 1 and got[0][0] == trees.TAGS['List'] and len(got[0][3]) == 1 and got[0][3][0][5] == base and gfn == fn)
                out.append((v, emb, ok, None, got if not ok else None, base if not ok else None))
        return out
    except Exception as e:
        return 'EXC %s: %s' % (type(e).__name__, e)


def run(ctx, only=None):
    ctx.cov['rule'] = ('texts (spec examples, mutations and splices, random strings, generated documents; tab-free, last line not blank) x token sets '
                       '{Html, Markdown} x embeddings (quote markers "> " and ">", list markers + - * N. N) with padding 1-4, minus thematic-break '
                       'coincidences); non-trivial = the text parses to at least two blocks or one container; distinct = distinct (text, token set, embedding)')
    rng = random.Random(ctx.seed)
    n = 2500 if ctx.quick() else 40000
    pool_texts = inputs.mixed_stream(rng, n) + [docgen.gen_doc(rng)[0] for _ in range(n // 2)]
    pool_texts += ['Foo\n---', 'a\n===\nb', '- a\n- b\n\nc', '```\nx\n\ny\n```\nz', '    code\n\n    more\ntext', '[a]: /u\n\n[a]', '| a |\n| - |\n| b |',
                   '<div>\nx\n\ny', 'a\n\n\nb', '1. x\n\n   y\n2. z', '> a\nb\n> c']
    texts = [t for t in pool_texts if usable(t)]
    jobs = []
    emb_texts = []
    for t in texts:
        variants = []
        qm = ['> '] + (['>'] if not any(l.startswith(' ') for l in tlines(t)) else [])
        for m in qm:
            variants.append(('q', m))
        # a whitespace-only line is 'blank' for the specification (so it gets no indent) and yet carries characters a code block would keep:
        # the law is stated for texts whose blank lines are empty
        if not t[0].isspace() and all(l == '' or l.strip(' ') for l in tlines(t)):
            for _ in range(2):
                m, p = rng.choice(LIST_MARKERS), rng.randint(1, 4)
                if not excluded(t, m, p):
                    variants.append(('l', m, p))
        for cid in (0, 2):
            jobs.append((t, cid, variants))
    with mp.Pool(core.NPROC) as pool:
        res = pool.map(worker, jobs, chunksize=50)
    nontriv = 0
    kinds = {}
    for (t, cid, variants), r in zip(jobs, res):
        if isinstance(r, str):
            ctx.count('impl_exceptions')
            continue
        for (v, emb, ok, kf, got, want) in r:
            ctx.count('evaluations')
            kinds[v[0] + v[1]] = kinds.get(v[0] + v[1], 0) + 1
            if cid == 0 and len(emb_texts) < (1500 if ctx.quick() else 30000):
                emb_texts.append(emb)
            if not ok:
                ctx.failing.append({'interface': 'oracle(%s)' % ('quote' if v[0] == 'q' else 'list'),
                                    'input': {'text': t, 'token_set': xdoc.CFG[cid], 'embedding': list(v), 'embedded': emb},
                                    'what': ('a setext heading is not recognised inside a block quote (Quote.read switches Paragraph.parse_setext off)'
                                             if kf else 'the embedded text does not parse to one %s holding the blocks of the text' % ('quote' if v[0] == 'q' else 'single-item list')),
                                    'observed': got, 'expected': want, 'kf': kf})
        if '\n\n' in t.strip('\n') or t.lstrip()[:1] in '>-*+':
            nontriv += len(r)
    ctx.cov['embeddings'] = kinds
    ctx.count('distinct_nontrivial', nontriv)
    ctx.sample({'text': texts[3], 'quoted': quote(texts[3], '> '), 'listed': embed(texts[3].lstrip() or 'x', '-', 2)})
    # tie of the model to the implementation on exactly these embeddings (and on the texts themselves)
    xdoc.run(ctx, emb_texts + texts[:800 if ctx.quick() else 10000], cfgs=(0, 2))


def replay(ctx, obj):
    inp = obj.get('input') or {}
    if isinstance(inp, dict) and 'text' in inp and 'embedding' in inp:
        cid = [k for k, v in xdoc.CFG.items() if v == inp['token_set']][0]
        r = worker((inp['text'], cid, [tuple(inp['embedding'])]))
        for (v, emb, ok, kf, got, want) in ([] if isinstance(r, str) else r):
            ctx.count('evaluations')
            if not ok:
                ctx.failing.append({'interface': 'oracle(replay)', 'input': inp, 'what': 'the embedded text does not parse to one container holding the blocks of the text',
                                    'observed': got, 'expected': want, 'kf': kf})
    else:
        run(ctx)
