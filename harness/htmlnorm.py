"""CommonMark's test normalisation of HTML (after the reference implementation's
test/normalize.py): whitespace around block-level tags is insignificant, runs of
whitespace collapse outside <pre>, attributes are sorted, entity and character
references are decoded, self-closing and plain forms of void tags are the same."""
import html
import re
from html.parser import HTMLParser

WS = re.compile(r'\s+')
BLOCK_TAGS = {'article', 'header', 'aside', 'hgroup', 'blockquote', 'hr', 'iframe', 'body', 'li', 'map', 'button', 'object', 'canvas', 'ol', 'caption',
              'output', 'col', 'p', 'colgroup', 'pre', 'dd', 'progress', 'div', 'section', 'dl', 'table', 'td', 'dt', 'tbody', 'embed', 'textarea',
              'fieldset', 'tfoot', 'figcaption', 'th', 'figure', 'thead', 'footer', 'tr', 'form', 'ul', 'h1', 'h2', 'h3', 'h4', 'h5', 'h6', 'video',
              'script', 'style'}


class _P(HTMLParser):
    def __init__(self):
        HTMLParser.__init__(self, convert_charrefs=False)
        self.last = 'starttag'
        self.in_pre = False
        self.output = ''
        self.last_tag = ''

    def handle_data(self, data):
        after_tag = self.last in ('endtag', 'starttag')
        after_block_tag = after_tag and self.last_tag in BLOCK_TAGS
        if after_tag and self.last_tag == 'br':
            data = data.lstrip('\n')
        if not self.in_pre:
            data = WS.sub(' ', data)
        if after_block_tag and not self.in_pre:
            if self.last == 'starttag':
                data = data.lstrip()
            elif self.last == 'endtag':
                data = data.strip()
        self.output += html.escape(data, quote=True)
        self.last = 'data'

    def handle_endtag(self, tag):
        if tag == 'pre':
            self.in_pre = False
        elif tag in BLOCK_TAGS:
            self.output = self.output.rstrip()
        self.output += '</' + tag + '>'
        self.last_tag = tag
        self.last = 'endtag'

    def handle_starttag(self, tag, attrs):
        if tag == 'pre':
            self.in_pre = True
        if tag in BLOCK_TAGS:
            self.output = self.output.rstrip()
        self.output += '<' + tag
        for (k, v) in sorted(attrs, key=lambda kv: kv[0]):
            self.output += ' ' + k
            if v is not None:
                self.output += '="' + html.escape(html.unescape(v), quote=True) + '"'
        self.output += '>'
        self.last_tag = tag
        self.last = 'starttag'

    def handle_startendtag(self, tag, attrs):
        self.handle_starttag(tag, attrs)
        self.last_tag = tag
        self.last = 'endtag'

    def handle_comment(self, data):
        self.output += '<!--' + data + '-->'
        self.last = 'comment'

    def handle_decl(self, data):
        self.output += '<!' + data + '>'
        self.last = 'decl'

    def unknown_decl(self, data):
        self.output += '<![' + data + ']>'
        self.last = 'decl'

    def handle_pi(self, data):
        self.output += '<?' + data + '>'
        self.last = 'pi'

    def handle_entityref(self, name):
        c = html.unescape('&' + name + ';')
        self.output += html.escape(c, quote=True) if c != '&' + name + ';' else '&' + name + ';'
        self.last = 'ref'

    def handle_charref(self, name):
        c = html.unescape('&#' + name + ';')
        self.output += html.escape(c, quote=True)
        self.last = 'ref'


def normalize(s):
    p = _P()
    # whole-document: decode nothing up front; feed as is
    p.feed(s)
    p.close()
    return p.output.strip()
