"""Shared machinery of the checks: regeneration of Gen/*.v, Coq build, the
extracted-model process pool, wire encoding, evidence, verdicts."""
import fcntl
import hashlib
import json
import os
import random
import re
import subprocess
import sys
import time
from concurrent.futures import ThreadPoolExecutor

ROOT = os.path.dirname(os.path.dirname(os.path.abspath(__file__)))
COQ = os.path.join(ROOT, 'coq')
THEORIES = os.path.join(COQ, 'theories')
EXTRACT = os.path.join(COQ, 'extract')
DRIVER = os.path.join(EXTRACT, 'modeldrv')
NPROC = min(16, os.cpu_count() or 4)

FORBIDDEN = re.compile(
    r'\b(Admitted|admit|Axiom|Axioms|Parameter|Parameters|Conjecture|Conjectures|Abort All'
    r'|Admit Obligations|bypass_check|type-in-type|impredicative-set)\b'
    r'|Unset\s+Guard\s+Checking|Unset\s+Positivity\s+Checking|Unset\s+Universe\s+Checking')

# axioms of the standard library that a property theorem may depend on; each is
# named in DESIGN.md section 4.  (Currently the development needs none.)
ALLOWED_AXIOMS = set()


def log(*a):
    print('[verif]', *a, file=sys.stderr, flush=True)


def sh(cmd, timeout=600, cwd=None, env=None, input=None):
    try:
        p = subprocess.run(cmd, shell=isinstance(cmd, str), cwd=cwd, env=env, input=input,
                           stdout=subprocess.PIPE, stderr=subprocess.STDOUT, timeout=timeout,
                           text=True)
        return p.returncode, p.stdout
    except subprocess.TimeoutExpired as e:
        out = e.stdout if isinstance(e.stdout, str) else (e.stdout or b'').decode('utf8', 'replace')
        return 124, out + '\nTIMEOUT after %ss' % timeout


# ---------------------------------------------------------------- wire
def enc(x):
    if x is True:
        return '1'
    if x is False:
        return '0'
    if x is None:
        return '()'
    if isinstance(x, int):
        return str(x)
    if isinstance(x, str):
        return '(' + ' '.join(str(ord(c)) for c in x) + ')'
    if isinstance(x, (list, tuple)):
        return '(' + ' '.join(enc(y) for y in x) + ')'
    raise TypeError(type(x))


_tok = re.compile(r'\(|\)|-?\d+')


def dec(s):
    s = s.split(';')[0]
    stack = [[]]
    for t in _tok.findall(s):
        if t == '(':
            stack.append([])
        elif t == ')':
            l = stack.pop()
            stack[-1].append(l)
        else:
            stack[-1].append(int(t))
    return stack[0][0] if stack[0] else None


def dstr(l):
    """decode a wire string (list of code points)"""
    return ''.join(chr(c) for c in l)


def model_map(requests, nproc=NPROC, timeout=1800):
    """Run wire requests (python values) through the extracted model; returns
    decoded replies in order."""
    if not requests:
        return []
    lines = [enc(r) for r in requests]
    n = max(1, min(nproc, (len(lines) + 199) // 200))
    chunks = [lines[i::n] for i in range(n)]

    def run(chunk):
        p = subprocess.run(['bash', '-c', 'ulimit -s unlimited 2>/dev/null; exec ' + DRIVER],
                           input='\n'.join(chunk) + '\n', stdout=subprocess.PIPE,
                           stderr=subprocess.PIPE, text=True, timeout=timeout)
        out = p.stdout.split('\n')
        if out and out[-1] == '':
            out.pop()
        if len(out) != len(chunk):
            raise RuntimeError('model driver returned %d replies for %d requests: %s'
                               % (len(out), len(chunk), p.stderr[-500:]))
        return out
    with ThreadPoolExecutor(n) as ex:
        outs = list(ex.map(run, chunks))
    res = [None] * len(lines)
    for k, out in enumerate(outs):
        for j, line in enumerate(out):
            res[k + j * n] = dec(line)
    return res


# ---------------------------------------------------------------- build
class BuildLock:
    def __enter__(self):
        self.f = open(os.path.join(COQ, '.buildlock'), 'w')
        fcntl.flock(self.f, fcntl.LOCK_EX)
        return self

    def __exit__(self, *a):
        fcntl.flock(self.f, fcntl.LOCK_UN)
        self.f.close()


def all_v_files():
    res = []
    for d, _, fs in os.walk(THEORIES):
        for f in fs:
            if f.endswith('.v'):
                res.append(os.path.relpath(os.path.join(d, f), COQ))
    return sorted(res)


def scan_sources():
    """reject Admitted/Axiom/... anywhere in the development (comments are
    stripped first so that prose may mention the words)"""
    bad = []
    files = [os.path.join(COQ, f) for f in all_v_files()] + [os.path.join(EXTRACT, 'Extract.v')]
    for f in files:
        txt = open(f, encoding='utf8').read()
        txt = strip_comments(txt)
        for m in FORBIDDEN.finditer(txt):
            bad.append('%s: %s' % (os.path.relpath(f, ROOT), m.group(0)))
        if os.path.basename(os.path.dirname(f)) != 'Gen' and re.search(r'^\s*(Variable|Hypothesis|Variables|Hypotheses|Context)\b', txt, re.M):
            # allowed only inside sections: every such file must open a Section before it
            first = re.search(r'^\s*(Variable|Hypothesis|Variables|Hypotheses|Context)\b', txt, re.M).start()
            if not re.search(r'^\s*Section\b', txt[:first], re.M):
                bad.append('%s: Variable/Hypothesis outside a section' % os.path.relpath(f, ROOT))
    return bad


def strip_comments(txt):
    out = []
    depth = 0
    i = 0
    n = len(txt)
    in_str = False
    while i < n:
        if not in_str and txt.startswith('(*', i):
            depth += 1
            i += 2
        elif not in_str and depth and txt.startswith('*)', i):
            depth -= 1
            i += 2
        else:
            if depth == 0:
                if txt[i] == '"':
                    in_str = not in_str
                out.append(txt[i])
            i += 1
    return ''.join(out)


def ensure_makefile():
    files = all_v_files()
    proj = os.path.join(COQ, '_CoqProject')
    head = ('-Q theories Mistletoe\n'
            '-arg -w -arg -notation-overridden,-deprecated-hint-without-locality,'
            '-deprecated-instance-without-locality,-deprecated-syntactic-definition\n')
    want = head + '\n'.join(files) + '\n'
    cur = open(proj).read() if os.path.exists(proj) else ''
    if cur != want or not os.path.exists(os.path.join(COQ, 'Makefile')):
        open(proj, 'w').write(want)
        try:
            os.remove(os.path.join(COQ, '.Makefile.d'))      # dependencies computed for another file list
        except OSError:
            pass
        rc, out = sh('coq_makefile -f _CoqProject -o Makefile', cwd=COQ)
        if rc != 0:
            raise RuntimeError('coq_makefile failed: ' + out)


def coq_make(targets, timeout=3000):
    """full .vo build of the given targets (relative to coq/)"""
    ensure_makefile()
    rc, out = sh(['timeout', str(timeout), 'make', '-j%d' % NPROC, '-k'] + targets, cwd=COQ,
                 timeout=timeout + 30)
    return rc == 0, out


def coq_props(pid, timeout=900):
    """(re)compile Props/<pid>.v on its own to capture Print Assumptions"""
    rel = 'theories/Props/%s.v' % pid
    rc, out = sh(['timeout', str(timeout), 'coqc', '-Q', 'theories', 'Mistletoe',
                  '-w', '-notation-overridden,-deprecated-hint-without-locality,-deprecated-instance-without-locality,-deprecated-syntactic-definition',
                  rel], cwd=COQ, timeout=timeout + 30)
    closed = out.count('Closed under the global context')
    axioms = []
    if 'Axioms:' in out:
        for blk in out.split('Axioms:')[1:]:
            for line in blk.split('\n'):
                m = re.match(r'^([A-Za-z_][\w.\']*)\s*:', line)
                if m:
                    axioms.append(m.group(1))
                elif line.startswith('Closed under') or line.startswith('File '):
                    break
    txt = strip_comments(open(os.path.join(COQ, rel), encoding='utf8').read())
    theorems = re.findall(r'^\s*(?:Theorem|Corollary)\s+([\w\']+)', txt, re.M)
    prints = re.findall(r'^\s*Print Assumptions\s+([\w\']+)', txt, re.M)
    return {'ok': rc == 0, 'out': out, 'closed': closed, 'axioms': sorted(set(axioms)),
            'theorems': theorems, 'prints': prints}


def build_driver(timeout=1200):
    """re-extract and recompile the OCaml driver when a model .vo is newer"""
    vo = os.path.join(THEORIES, 'Extract', 'Driver.vo')
    srcs = [vo, os.path.join(EXTRACT, 'main.ml'), os.path.join(EXTRACT, 'Extract.v')]
    if os.path.exists(DRIVER) and all(os.path.getmtime(DRIVER) >= os.path.getmtime(s) for s in srcs):
        return True, ''
    rc, out = sh('rm -f model.ml model.mli *.cm* *.o modeldrv.tmp && '
                 'coqc -Q ../theories Mistletoe Extract.v && '
                 'ocamlfind ocamlopt -O2 -w -a model.mli model.ml main.ml -o modeldrv.tmp 2>&1 || '
                 'ocamlfind ocamlopt -w -a model.mli model.ml main.ml -o modeldrv.tmp',
                 cwd=EXTRACT, timeout=timeout)
    if rc == 0:
        os.replace(os.path.join(EXTRACT, 'modeldrv.tmp'), DRIVER)
    return rc == 0, out


def write_if_changed(path, content):
    if os.path.exists(path) and open(path, encoding='utf8').read() == content:
        return False
    os.makedirs(os.path.dirname(path), exist_ok=True)
    tmp = path + '.tmp'
    open(tmp, 'w', encoding='utf8').write(content)
    os.replace(tmp, path)
    return True


# ---------------------------------------------------------------- context
class Ctx:
    def __init__(self, pid, tier, seed):
        self.pid = pid
        self.tier = tier
        self.seed = seed
        self.t0 = time.time()
        self.rng = random.Random(seed)
        self.proof_failures = []      # strings: theorem / translator / scan failures
        self.disagreements = []       # dicts: interface, input, model, impl
        self.failing = []             # dicts: input, what, kf (id or None)
        self.cov = {}                 # coverage counters, merged into evidence
        self.samples = []
        self.obligations = 0
        self.discharged = 0
        self.trusted = []
        self.assumptions = []
        self.notes = []

    def quick(self):
        return self.tier != 'thorough'

    def count(self, key, n=1):
        self.cov[key] = self.cov.get(key, 0) + n

    def sample(self, x, limit=12):
        if len(self.samples) < limit:
            self.samples.append(x)


def load_known():
    p = os.path.join(ROOT, 'known_findings.json')
    return json.load(open(p)) if os.path.exists(p) else {'findings': []}


def replay_path(pid, obj):
    d = os.path.join(ROOT, 'replays', pid)
    os.makedirs(d, exist_ok=True)
    h = hashlib.sha1(json.dumps(obj, sort_keys=True, default=str).encode()).hexdigest()[:12]
    p = os.path.join(d, h + '.json')
    json.dump(obj, open(p, 'w'), indent=1, default=str)
    return p


def write_evidence(ctx, violations):
    cov = dict(ctx.cov)
    cov.setdefault('evaluations', 0)
    cov.setdefault('distinct_nontrivial', 0)
    cov['obligations'] = ctx.obligations
    cov['discharged'] = ctx.discharged
    cov['checker_cmd'] = ('make -C coq theories/Props/%s.vo (coqc 8.16.1, full .vo build) + '
                          'coqc theories/Props/%s.v for Print Assumptions' % (ctx.pid, ctx.pid))
    cov['trusted_base'] = ctx.trusted
    cov['samples'] = ctx.samples or ['(none)']
    cov['proof_failures'] = ctx.proof_failures
    cov['correspondence_disagreements'] = len(ctx.disagreements)
    cov['notes'] = ctx.notes
    ev = {
        'property_id': ctx.pid, 'tier': 'thorough' if ctx.tier == 'thorough' else 'quick',
        'seed': ctx.seed, 'level': 'proof', 'coverage': cov,
        'assumptions': ctx.assumptions, 'wall_s': round(time.time() - ctx.t0, 2),
        'violations': violations,
    }
    os.makedirs(os.path.join(ROOT, 'evidence'), exist_ok=True)
    p = os.path.join(ROOT, 'evidence', ctx.pid + '.json')
    json.dump(ev, open(p + '.tmp', 'w'), indent=1, default=str)
    os.replace(p + '.tmp', p)


BASE_TRUSTED = [
    'Coq 8.16.1 kernel (coqc, full .vo build; vm_compute used for reflective side conditions; no native_compute)',
    'extraction: ExtrOcamlBasic only (bool, option, unit, list, prod, sumbool, sumor mapped to OCaml; andb/orb inlined); Z/positive/N/nat stay extracted datatypes; OCaml 4.13.1',
    'coq/extract/main.ml: S-expression reader/printer, int<->Z conversion (hand-written)',
    'harness: generators, dumpers/loaders, comparison (python)',
]
