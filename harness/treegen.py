"""Tree-first generator for C03: draws an abstract tree of CommonMark/GFM constructs,
writes it out in one of the spellings the specification leaves free, and writes the
expected HTML directly from the tree.  The text is never parsed here.

Blocks:   ('para', inl) ('atx', level, inl) ('setext', level, inl) ('hr',) ('fence', info, lines)
          ('icode', lines) ('quote', blocks) ('list', ordered, start, tight, items) ('table', aligns, header, rows)
          ('html', lines) ('def', label, dest, title)
Inlines:  a list of items; ('text', words) ('em', inl) ('strong', inl) ('strike', inl) ('code', s)
          ('link', inl, dest, title) ('ref', label) ('image', alt, src, title) ('auto', url, mailto)
          ('hard',) ('soft',) ('esc', ch) ('charref', spelling, char) ('raw', s)
Invariant used for validity: every inline sequence starts and ends with a ('text', ...)
item and a break only stands between two text items, so a line of inline content always
starts and ends with a plain word."""
import html
from urllib.parse import quote as urlquote

WORDS = ['alpha', 'beta', 'gamma', 'delta', 'lorem', 'ipsum', 'dolor', 'sit', 'amet', 'word', 'Text', 'x', 'Zeta', 'omega', 'tree', 'ab', 'cd', 'end']
PUNCT = list('!"#$%&\'()*+,-./:;<=>?@[]^_`{|}~\\')
CHARREFS = [('&amp;', '&'), ('&lt;', '<'), ('&quot;', '"'), ('&copy;', '©'), ('&#35;', '#'), ('&#x22;', '"'), ('&ouml;', 'ö'), ('&#1234;', 'Ӓ')]
RAW = ['<b>', '</b>', '<span class="x">', '<br/>', '<!-- c -->', '<a href="u">', '</a>', '<img src="i" />']
DESTS = ['/url', '/a/b.c', 'http://ex.am/a?b=c&d=e', '#frag', 'rel', '/pqr']
TITLES = ['', '', 'title', 'two words', 'it']
CODE_LINES = ['code', 'x = 1', '  indented', '# not a heading', '- not a list', '> not a quote', '*a*', '<b>', 'a & b', '', '    deep', '[x]: /y', '| a |']


class TreeGen:
    def __init__(self, rng, max_depth=3, setext_in_quote=False):
        self.rng = rng
        self.max_depth = max_depth
        self.setext_in_quote = setext_in_quote
        self.defs = {}          # label -> (dest, title)
        self.counts = {}
        self.nlabel = 0

    def note(self, k):
        self.counts[k] = self.counts.get(k, 0) + 1

    # ------------------------------------------------------------ inline trees
    def text(self, n=None):
        return ('text', [self.rng.choice(WORDS) for _ in range(n or self.rng.randint(1, 3))])

    def inline(self, depth=0, allow_link=True, allow_break=True, n=None):
        rng = self.rng
        items = [self.text()]
        for _ in range(n if n is not None else rng.randint(0, 4)):
            r = rng.random()
            if r < 0.30:
                it = self.text()
            elif r < 0.40 and depth < 2:
                it = ('em', self.inline(depth + 1, allow_link, False, rng.randint(0, 2)))
            elif r < 0.48 and depth < 2:
                it = ('strong', self.inline(depth + 1, allow_link, False, rng.randint(0, 2)))
            elif r < 0.52 and depth < 2:
                it = ('strike', [self.text()])
            elif r < 0.60:
                it = ('code', rng.choice(['code', 'a b', 'x*y', '<tag>', 'a  b', 'q&r', '[z]', 'u_v']))
            elif r < 0.68 and allow_link:
                it = ('link', self.inline(depth + 1, False, False, rng.randint(0, 1)), rng.choice(DESTS), rng.choice(TITLES))
            elif r < 0.73 and allow_link and depth == 0:
                it = ('ref', self.new_label())
            elif r < 0.78:
                it = ('image', ' '.join(self.text()[1]), rng.choice(DESTS), rng.choice(TITLES))
            elif r < 0.82 and allow_link:
                it = rng.choice([('auto', 'http://auto.link/p?q=1&r=2', False), ('auto', 'me@ex.am', True), ('auto', 'ftp://f.g/h', False), ('auto', 'http://user@host.ex/p', False), ('auto', 'x@mailto.ex', True), ('auto', 'mailto:you@ex.am', False)])
            elif r < 0.87:
                it = ('esc', rng.choice(PUNCT))
            elif r < 0.92:
                it = ('charref',) + rng.choice(CHARREFS)
            elif r < 0.96:
                it = ('raw', rng.choice(RAW))
            else:
                it = self.text()
            self.note('inline=' + it[0])
            items.append(it)
            items.append(self.text())
        # breaks only between two text items
        if allow_break:
            out = []
            for i, it in enumerate(items):
                out.append(it)
                if it[0] == 'text' and i + 1 < len(items) and items[i + 1][0] == 'text' and rng.random() < 0.35:
                    out.append(('hard',) if rng.random() < 0.3 else ('soft',))
            items = out
        return items

    def new_label(self):
        self.nlabel += 1
        label = self.rng.choice(['foo', 'Bar', 'baz qux', 'ref']) + str(self.nlabel)
        self.defs[label] = (self.rng.choice(DESTS), self.rng.choice(TITLES))
        return label

    # ------------------------------------------------------------ block trees
    def block(self, depth, in_quote, first_in_item=False):
        rng = self.rng
        kinds = ['para', 'para', 'para', 'atx', 'hr', 'fence']
        if not first_in_item:
            kinds += ['icode', 'table', 'html']
        else:
            kinds += ['table']        # an item may begin with a table (ListItem.read once took the next item's table for the end of the list)
        if not in_quote or self.setext_in_quote:
            kinds.append('setext')
        if depth < self.max_depth:
            kinds += ['quote', 'list', 'list']
        k = rng.choice(kinds)
        self.note('block=' + k)
        if k == 'para':
            return ('para', self.inline())
        if k == 'atx':
            return ('atx', rng.randint(1, 6), self.inline(allow_break=False))
        if k == 'setext':
            # inside a quote (the stream for the recorded finding) the heading is one line, so that the respelling as an ATX heading says the same
            return ('setext', rng.randint(1, 2), self.inline(allow_break=not in_quote))
        if k == 'hr':
            return ('hr',)
        if k == 'fence':
            return ('fence', rng.choice(['', '', 'python', 'c++ extra words', 'lang']), [rng.choice(CODE_LINES) for _ in range(rng.randint(0, 4))])
        if k == 'icode':
            lines = [rng.choice([l for l in CODE_LINES if l]) for _ in range(rng.randint(1, 3))]
            if len(lines) > 1 and rng.random() < 0.3:
                lines.insert(1, '')
            return ('icode', lines)
        if k == 'table':
            ncol = rng.randint(1, 3)
            cell = lambda: self.inline(allow_link=True, allow_break=False, n=rng.randint(0, 1))   # noqa: E731
            return ('table', [rng.choice([None, None, 0, 1]) for _ in range(ncol)], [cell() for _ in range(ncol)],
                    [[cell() for _ in range(ncol)] for _ in range(rng.randint(1, 2))])
        if k == 'html':
            return ('html', rng.choice([['<div>', 'raw *text*', '</div>'], ['<!-- a comment -->'], ['<pre>', 'x  y', '', '</pre>'], ['<table><tr><td>', 'c', '</td></tr></table>'],
                                        ['<?php echo 1; ?>'], ['<DIV CLASS="a">']]))
        if k == 'quote':
            return ('quote', self.blocks(depth + 1, rng.randint(1, 3), True))
        if k == 'list':
            ordered = rng.random() < 0.4
            tight = rng.random() < 0.5
            items = []
            for _ in range(rng.randint(1, 3)):
                first = self.block(depth + 1, in_quote, first_in_item=True) if rng.random() < 0.3 else ('para', self.inline())
                it = [first]
                if tight:
                    # a tight item: blocks that may follow each other without a blank line
                    if first[0] == 'para' and depth + 1 < self.max_depth and rng.random() < 0.4:
                        it.append(rng.choice([lambda: ('fence', '', ['c']), lambda: self.interrupting_list(depth + 1, in_quote), lambda: ('quote', [('para', self.inline())])])())
                else:
                    for _j in range(rng.randint(0, 2)):
                        nb = self.block(depth + 1, in_quote)
                        if nb[0] == 'icode' and it[-1][0] in ('icode', 'list'):
                            nb = ('para', self.inline())
                        it.append(nb)
                items.append(it)
            if not tight and len(items) == 1 and len(items[0]) == 1:
                tight = True       # nothing to put a blank line between
            return ('list', ordered, rng.choice([1, 1, 1, 2, 7, 10, 123456789]) if ordered else None, tight, items)
        raise AssertionError(k)

    def interrupting_list(self, depth, in_quote):
        b = self.block_of('list', depth, in_quote)
        return (b[0], b[1], 1 if b[1] else None, b[3], b[4])      # only a list that starts with 1 may interrupt a paragraph

    def block_of(self, kind, depth, in_quote):
        while True:
            b = self.block(depth, in_quote, first_in_item=True)
            if b[0] == kind:
                return b

    def blocks(self, depth, n, in_quote=False):
        out = []
        for _ in range(n):
            b = self.block(depth, in_quote)
            # two indented code blocks in a row are one block; a list directly after a list of the same type likewise (handled when spelling)
            if out and b[0] == 'icode' and out[-1][0] in ('icode', 'list'):
                b = ('para', self.inline())
            out.append(b)
        return out

    def document(self, n=None):
        tree = self.blocks(0, n or self.rng.randint(1, 5))
        # definitions: placed anywhere a block may start
        for label, (dest, title) in self.defs.items():
            self.place_def(tree, ('def', label, dest, title))
        return tree

    def place_def(self, blocks, d):
        conts = [(blocks, 0)]

        def walk(bs):
            for b in bs:
                if b[0] == 'quote':
                    conts.append((b[1], 0))
                    walk(b[1])
                elif b[0] == 'list':
                    for it in b[4]:
                        if not b[3]:
                            conts.append((it, 1))      # never the first block of an item, never in a tight list
                        walk(it)
        walk(blocks)
        target, lo = self.rng.choice(conts)
        target.insert(self.rng.randint(lo, len(target)), d)


# ---------------------------------------------------------------- expected HTML
def esc(s):
    return html.escape(s, quote=True)


def href(u):
    return esc(urlquote(html.unescape(u), safe="/#:()*?=%@+,&;"))


def html_inline(items, defs):
    out = []
    for i, it in enumerate(items):
        k = it[0]
        if k == 'text':
            s = ' '.join(it[1])
        elif k == 'em':
            s = '<em>' + html_inline(it[1], defs) + '</em>'
        elif k == 'strong':
            s = '<strong>' + html_inline(it[1], defs) + '</strong>'
        elif k == 'strike':
            s = '<del>' + html_inline(it[1], defs) + '</del>'
        elif k == 'code':
            s = '<code>' + esc(' '.join(it[1].split('\n'))) + '</code>'
        elif k == 'link':
            s = '<a href="' + href(it[2]) + '"' + (' title="' + esc(it[3]) + '"' if it[3] else '') + '>' + html_inline(it[1], defs) + '</a>'
        elif k == 'ref':
            dest, title = defs[it[1]]
            s = '<a href="' + href(dest) + '"' + (' title="' + esc(title) + '"' if title else '') + '>' + esc(it[1]) + '</a>'
        elif k == 'image':
            s = '<img src="' + href(it[2]) + '" alt="' + esc(it[1]) + '"' + (' title="' + esc(it[3]) + '"' if it[3] else '') + ' />'
        elif k == 'auto':
            s = '<a href="' + ('mailto:' if it[2] else '') + href(it[1]) + '">' + esc(it[1]) + '</a>'
        elif k == 'hard':
            out.append('<br />\n')
            continue
        elif k == 'soft':
            out.append('\n')
            continue
        elif k == 'esc':
            s = esc(it[1])
        elif k == 'charref':
            s = esc(it[2])
        elif k == 'raw':
            s = it[1]
        else:
            raise AssertionError(k)
        if out and not out[-1].endswith('\n'):
            out.append(' ')
        out.append(s)
    return ''.join(out)


def html_blocks(blocks, defs, tight=False):
    out = []
    for b in blocks:
        k = b[0]
        if k == 'para':
            out.append(html_inline(b[1], defs) if tight else '<p>' + html_inline(b[1], defs) + '</p>')
        elif k in ('atx', 'setext'):
            out.append('<h%d>%s</h%d>' % (b[1], html_inline(b[2], defs), b[1]))
        elif k == 'hr':
            out.append('<hr />')
        elif k == 'fence':
            lang = b[1].split()[0] if b[1].split() else ''
            out.append('<pre><code%s>%s</code></pre>' % (' class="language-%s"' % esc(lang) if lang else '', ''.join(esc(l) + '\n' for l in b[2])))
        elif k == 'icode':
            out.append('<pre><code>%s</code></pre>' % ''.join(esc(l) + '\n' for l in b[1]))
        elif k == 'quote':
            out.append('<blockquote>\n' + html_blocks(b[1], defs) + '</blockquote>')
        elif k == 'list':
            tag = 'ol' if b[1] else 'ul'
            attr = ' start="%d"' % b[2] if b[1] and b[2] != 1 else ''
            items = ''.join('<li>\n' + html_blocks(it, defs, tight=b[3]) + '</li>\n' for it in b[4])
            out.append('<%s%s>\n%s</%s>' % (tag, attr, items, tag))
        elif k == 'table':
            al = [' align="%s"' % {None: 'left', 0: 'center', 1: 'right'}[a] for a in b[1]]
            head = '<thead>\n<tr>\n' + ''.join('<th%s>%s</th>\n' % (a, html_inline(c, defs)) for a, c in zip(al, b[2])) + '</tr>\n</thead>\n'
            body = '<tbody>\n' + ''.join('<tr>\n' + ''.join('<td%s>%s</td>\n' % (a, html_inline(c, defs)) for a, c in zip(al, r)) + '</tr>\n' for r in b[3]) + '</tbody>\n'
            out.append('<table>\n' + head + body + '</table>')
        elif k == 'html':
            out.append('\n'.join(b[1]))
        elif k == 'def':
            continue
        else:
            raise AssertionError(k)
    return ''.join(o + '\n' for o in out)


# ---------------------------------------------------------------- spelling
class Speller:
    """writes a tree out; every free choice is drawn from rng and counted"""

    def __init__(self, rng, lazy=True, atx_for_setext_in_quote=False, lazy_after_indented=False):
        self.rng = rng
        self.lazy = lazy
        self.lazy_after_indented = lazy_after_indented
        self.used_lazy_after_indented = False
        self.atx_for_setext_in_quote = atx_for_setext_in_quote
        self.choices = {}

    def pick(self, name, options):
        c = self.rng.choice(options)
        key = '%s=%r' % (name, c)
        self.choices[key] = self.choices.get(key, 0) + 1
        return c

    # inline -> list of lines
    def inline_lines(self, items, top=True):
        lines = ['']
        for it in items:
            k = it[0]
            if k == 'hard':
                lines[-1] += self.pick('hardbreak', ['  ', '   ', '\\'])
                lines.append('')
                continue
            if k == 'soft':
                lines[-1] += self.pick('soft_trailing', ['', '', ' '])
                lines.append('')
                continue
            if k == 'text':
                s = ' '.join(it[1])
            elif k in ('em', 'strong'):
                d = self.pick(k, ['*', '_']) * (1 if k == 'em' else 2)
                s = d + ' '.join(self.inline_lines(it[1], False)) + d
            elif k == 'strike':
                s = '~~' + ' '.join(self.inline_lines(it[1], False)) + '~~'
            elif k == 'code':
                n = self.pick('code_ticks', [1, 2, 3])
                pad = self.pick('code_pad', ['', ' '])
                s = '`' * n + pad + it[1] + pad + '`' * n
            elif k == 'link':
                s = '[' + ' '.join(self.inline_lines(it[1], False)) + '](' + self.dest(it[2]) + self.title(it[3]) + ')'
            elif k == 'ref':
                lab = it[1]
                form = self.pick('ref_form', ['full', 'collapsed', 'shortcut'])
                other_case = self.pick('ref_case', [lab, lab.upper(), lab.lower()])
                s = {'full': '[%s][%s]' % (lab, other_case), 'collapsed': '[%s][]' % lab, 'shortcut': '[%s]' % lab}[form]
            elif k == 'image':
                s = '![' + it[1] + '](' + self.dest(it[2]) + self.title(it[3]) + ')'
            elif k == 'auto':
                s = '<' + it[1] + '>'
            elif k == 'esc':
                s = '\\' + it[1]
            elif k == 'charref':
                s = it[1]
            elif k == 'raw':
                s = it[1]
            else:
                raise AssertionError(k)
            if lines[-1]:
                lines[-1] += ' '
            lines[-1] += s
        return lines

    def dest(self, d):
        return self.pick('dest_form', ['plain', 'angle']) == 'angle' and '<' + d + '>' or d

    def title(self, t):
        if not t:
            return ''
        q = self.pick('title_quote', ['"', "'", '('])
        return ' ' + q + t + (')' if q == '(' else q)

    # blocks -> list of (line, lazy_ok)
    def spell_blocks(self, blocks, in_quote=False, first_in_item=False, bullet=None, force_blank=False):
        rng = self.rng
        out = []
        prev = None
        prev_list_type = None
        for idx, b in enumerate(blocks):
            k = b[0]
            indent = ' ' * (0 if (first_in_item and idx == 0) or prev == 'list' else self.pick('indent', [0, 0, 1, 2, 3]))
            lines = None
            hr_dash_ok = True
            blank = None            # None = free choice, True = required
            if prev is not None:
                if prev in ('quote', 'list', 'table', 'html6'):
                    blank = True
                elif prev in ('para',) and k in ('para', 'icode', 'setext', 'table', 'def'):
                    blank = True
                elif prev == 'para' and k == 'list' and (b[1] and b[2] != 1):
                    blank = True
                elif prev == 'para' and k == 'html' and not b[1][0].lower().startswith(('<div', '<pre', '<!--', '<table', '<?')):
                    blank = True
                elif prev == 'def' and k in ('icode', 'table'):
                    blank = True
                elif prev == 'icode' and k == 'icode':
                    blank = True
                elif k == 'table':
                    blank = True
                if force_blank:
                    blank = True
            use_blank = blank if blank else (prev is not None and rng.random() < 0.6)
            if prev in ('para', 'def') and not use_blank:
                hr_dash_ok = False
            if k == 'para':
                ls = self.inline_lines(b[1])
                lines = [(indent + ls[0], False)] + [(' ' * self.pick('cont_indent', [0, 0, 1, 3, 5]) + l, True) for l in ls[1:]]
            elif k == 'atx' or (k == 'setext' and in_quote and self.atx_for_setext_in_quote):
                closing = self.pick('atx_closing', ['', '', ' #', ' ###', ' #' * 1 + ' '])
                lines = [(indent + '#' * b[1] + self.pick('atx_space', [' ', '  ']) + ' '.join(self.inline_lines([x for x in b[2] if x[0] not in ('hard', 'soft')])) + closing, False)]
            elif k == 'setext':
                ls = self.inline_lines(b[2])
                ul = ('=' if b[1] == 1 else '-') * self.pick('underline_len', [1, 2, 3, 7])
                lines = [(indent + ls[0], False)] + [(l, False) for l in ls[1:]] + [(' ' * self.pick('underline_indent', [0, 0, 2, 3]) + ul + self.pick('underline_trail', ['', ' ']), False)]
            elif k == 'hr':
                chars = ['*', '_'] + (['-'] if hr_dash_ok else [])
                if first_in_item and idx == 0 and bullet in chars:
                    chars.remove(bullet)
                c = self.pick('hr_char', chars)
                lines = [(indent + self.pick('hr_form', [c * 3, c * 5, ' '.join(c * 3), (c + '  ') * 3 + c]), False)]
            elif k == 'fence':
                ch = self.pick('fence_char', ['`', '~'])
                n = self.pick('fence_len', [3, 3, 4, 6])
                close_extra = self.pick('fence_close_extra', [0, 0, 2])
                body = [(indent + l if l else self.pick('fence_blank', ['', indent]), False) for l in b[2]]
                lines = [(indent + ch * n + self.pick('info_space', ['', ' ']) + b[1], False)] + body + \
                        [(' ' * self.pick('fence_close_indent', [0, len(indent), 3]) + ch * (n + close_extra) + self.pick('fence_trail', ['', '  ']), False)]
            elif k == 'icode':
                lines = [('    ' + l if l else self.pick('icode_blank', ['', '    ', '  ']), False) for l in b[1]]
            elif k == 'quote':
                inner = self.spell_blocks(b[1], in_quote=True)
                lines = []
                prev_inner = ''
                for (l, lazy_ok) in inner:
                    # Quote.read refuses a lazy line after a quoted line whose content is indented four or more spaces (it takes it
                    # for indented code): recorded finding kf_lazy_after_indented_line, exercised only when asked for
                    risky = prev_inner.startswith('    ')
                    if lazy_ok and self.lazy and rng.random() < 0.3 and (self.lazy_after_indented or not risky):
                        self.pick('lazy', ['quote'])
                        if risky:
                            self.used_lazy_after_indented = True
                        lines.append((l, True))
                    else:
                        m = self.pick('quote_marker', ['> ', '> ', '>']) if l else self.pick('quote_blank', ['>', '> '])
                        if m == '>' and l.startswith(' '):
                            m = '> '
                        # once a quote marker is written the line is no longer bare continuation text for the containers outside
                        lines.append((indent + m + l, False))
                    prev_inner = l
            elif k == 'list':
                lines = self.spell_list(b, indent, in_quote, avoid=prev_list_type if prev == 'list' else None)
                prev_list_type = self.last_list_type
            elif k == 'table':
                lines = self.spell_table(b, indent)
            elif k == 'html':
                lines = [(l, False) for l in b[1]]
            elif k == 'def':
                lab = self.pick('def_case', [b[1], b[1].upper()])
                lines = [(indent + '[' + lab + ']:' + self.pick('def_space', [' ', '  ']) + self.dest(b[2]) + self.title(b[3]), False)]
            else:
                raise AssertionError(k)
            if out and use_blank:
                out += [('', False)] * self.pick('blank_lines', [1, 1, 2])
            out += lines
            prev = k
            if k == 'html':
                prev = 'html6' if not (b[1][0].startswith('<!--') or b[1][0].startswith('<?') or b[1][0].startswith('<pre')) else 'html'
            if k == 'setext' and in_quote and self.atx_for_setext_in_quote:
                prev = 'atx'
        return out

    def spell_list(self, b, indent, in_quote, avoid=None):
        rng = self.rng
        _, ordered, start, tight, items = b
        if ordered:
            delim = self.pick('ol_delim', [d for d in ['.', ')'] if ('ol', d) != avoid])
            self.last_list_type = ('ol', delim)
        else:
            bullet = self.pick('bullet', [c for c in ['-', '*', '+'] if ('ul', c) != avoid])
            self.last_list_type = ('ul', bullet)
        out = []
        # a loose list needs ONE blank line between two items or between two blocks of an item: choose where
        seps = [False] * len(items)
        every_child = [False] * len(items)
        if not tight:
            seps = [i > 0 and rng.random() < 0.5 for i in range(len(items))]
            every_child = [rng.random() < 0.5 for _ in items]
            if not any(seps):
                if len(items) > 1:
                    seps[rng.randint(1, len(items) - 1)] = True
                else:
                    every_child[0] = True
            self.pick('loose_by', ['items' if any(seps) else 'children'])
        for i, it in enumerate(items):
            marker = (str(start + i) + delim) if ordered else bullet
            pad = self.pick('marker_pad', [1, 1, 2, 3, 4])
            w = len(indent) + len(marker) + pad
            inner = self.spell_item(it, tight, in_quote, None if ordered else bullet, every_child[i])
            if seps[i]:
                out += [('', False)] * self.pick('item_blank', [1, 1, 2])
            for j, (l, lazy_ok) in enumerate(inner):
                if j == 0:
                    out.append((indent + marker + ' ' * pad + l, False))
                elif l == '':
                    out.append(('', False))
                elif lazy_ok and self.lazy and rng.random() < 0.25:
                    self.pick('lazy', ['item'])
                    out.append((l, True))
                else:
                    out.append((' ' * w + l, lazy_ok))
        self.last_list_type = ('ol', delim) if ordered else ('ul', bullet)      # nested lists have overwritten it
        return out

    def spell_item(self, blocks, tight, in_quote, bullet, force_blank=True):
        if not tight:
            return self.spell_blocks(blocks, in_quote=in_quote, first_in_item=True, bullet=bullet, force_blank=force_blank)
        # tight: no blank line between the item's blocks
        out = []
        for idx, blk in enumerate(blocks):
            out += self.spell_blocks([blk], in_quote=in_quote, first_in_item=(idx == 0), bullet=bullet)
        return out

    def spell_table(self, b, indent):
        _, aligns, header, rows = b
        edge = self.pick('table_edges', ['both', 'both', 'none', 'left'])

        def row(cells):
            body = self.pick('cell_pad', [' | ', '|', '  |  ']).join(cells)
            if edge == 'both':
                return '| ' + body + ' |'
            if edge == 'left':
                return '| ' + body
            return body if len(cells) > 1 else '| ' + body + ' |'
        sep = [{None: self.pick('align_default', ['---', '-', ':--']), 0: ':-:', 1: '--:'}[a] for a in aligns]
        cells = lambda r: [' '.join(self.inline_lines(c)) for c in r]   # noqa: E731
        return [(indent + row(cells(header)), False), (row(sep), False)] + [(row(cells(r)), False) for r in rows]

    def document(self, tree):
        lines = self.spell_blocks(tree)
        return '\n'.join(l for l, _ in lines) + self.pick('final_newline', ['\n', '\n', ''])


def has_setext_in_quote(blocks, in_quote=False):
    for b in blocks:
        if b[0] == 'setext' and in_quote:
            return True
        if b[0] == 'quote' and has_setext_in_quote(b[1], True):
            return True
        if b[0] == 'list' and any(has_setext_in_quote(it, in_quote) for it in b[4]):
            return True
    return False


def draw(rng, **kw):
    """(tree, defs, expected_html, counts)"""
    g = TreeGen(rng, **kw)
    tree = g.document()
    return tree, g.defs, html_blocks(tree, g.defs), g.counts
