"""X-doc: Document(text) under a token configuration vs the extracted Model.Parser on the same
text: dumped tree, Document.footnotes (order included) and the line numbers of all block tokens."""
import multiprocessing as mp

from harness import core, trees

CFG = {0: 'html', 1: 'html_nohtml', 2: 'markdown', 3: 'latex'}


def renderer(cid):
    from mistletoe.html_renderer import HtmlRenderer
    from mistletoe.markdown_renderer import MarkdownRenderer
    from mistletoe.latex_renderer import LaTeXRenderer
    return [lambda: HtmlRenderer(), lambda: HtmlRenderer(process_html_tokens=False), lambda: MarkdownRenderer(), lambda: LaTeXRenderer()][cid]()


def impl_doc(args):
    text, cid = args
    from mistletoe import Document
    try:
        with renderer(cid):
            d = Document(text)
            return [trees.dump(d), [[k, v[0], v[1]] for k, v in d.footnotes.items()], trees.block_line_numbers(d)]
    except Exception as e:
        return 'EXC %s: %s' % (type(e).__name__, e)


def decode(m):
    return [trees.undump(m[0]), [[core.dstr(x) for x in f] for f in m[1]], m[2]]


def run(ctx, texts, cfgs=(0, 1, 2, 3), label='X-doc'):
    jobs = [(t, c) for t in texts for c in cfgs]
    with mp.Pool(core.NPROC) as pool:
        exp = pool.map(impl_doc, jobs, chunksize=50)
    if not ctx.driver_ok:
        return exp
    res = core.model_map([[40, c, t] for t, c in jobs])
    bad = 0
    for (t, c), e, m in zip(jobs, exp, res):
        ctx.count('xdoc_cases')
        try:
            mm = decode(m)
        except Exception as ex:
            mm = 'undecodable model reply: %r' % (ex,)
        if mm != e:
            bad += 1
            if bad <= 5:
                ctx.disagreements.append({'interface': label, 'input': {'text': t, 'token_set': CFG[c]}, 'model': mm, 'impl': e})
    if bad > 5:
        ctx.disagreements.append({'interface': label, 'input': '%d further disagreements' % (bad - 5), 'model': None, 'impl': None})
    return exp
