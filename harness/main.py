"""./check Cnn [--tier quick|thorough] [--replay path]"""
import argparse
import importlib
import json
import os
import re
import sys
import traceback

sys.path.insert(0, os.path.dirname(os.path.dirname(os.path.abspath(__file__))))
from harness import core  # noqa: E402
from harness.core import log  # noqa: E402


def regen(names, ctx):
    changed = []
    for name in names:
        try:
            mod = importlib.import_module('harness.gen.' + name)
            for rel, content in mod.generate().items():
                if core.write_if_changed(os.path.join(core.THEORIES, 'Gen', rel), content):
                    changed.append(rel)
        except Exception as e:  # fail closed: a translator that cannot read the source
            ctx.proof_failures.append('translator %s failed on the current source: %s: %s'
                                      % (name, type(e).__name__, str(e)[:300]))
            log(traceback.format_exc())
    return changed


def first_coq_error(out):
    m = re.search(r'File "([^"]+)", line (\d+), characters [^\n]*\n(Error:.*?)(?:\n\n|\nmake|\Z)', out, re.S)
    if m:
        return '%s:%s %s' % (m.group(1), m.group(2), ' '.join(m.group(3).split())[:400])
    m = re.search(r'(Error:.*?)(?:\n\n|\Z)', out, re.S)
    return ' '.join(m.group(1).split())[:400] if m else out[-400:]


def build(ctx, mod):
    pid = ctx.pid
    with core.BuildLock():
        # every translator runs on every check: the extracted driver links all model files, so a check must not depend on
        # what an earlier command left in Gen/ (the property's own GEN list names the translators its theorems rest on)
        all_gens = sorted(f[:-3] for f in os.listdir(os.path.join(core.ROOT, 'harness', 'gen')) if f.endswith('.py') and not f.startswith('_'))
        own = list(getattr(mod, 'GEN', []))
        regen(own, ctx)
        # the others feed model files this property's theorems do not rest on: a translator that cannot read the current source
        # there is noted, not held against this property (the stale Gen file, if any, keeps the driver linkable)
        scratch = core.Ctx(pid, ctx.tier, ctx.seed)
        regen([g for g in all_gens if g not in own], scratch)
        for f in scratch.proof_failures:
            ctx.notes.append('not counted: ' + f)
        for b in core.scan_sources():
            ctx.proof_failures.append('forbidden construct: ' + b)
        ok, out = core.coq_make(['theories/Extract/Driver.vo'])
        driver_ok = ok
        if not ok:
            ctx.proof_failures.append('model does not compile: ' + first_coq_error(out))
        ok, out = core.coq_make(['theories/Props/%s.vo' % pid])
        if not ok:
            ctx.proof_failures.append('proof obligation fails: ' + first_coq_error(out))
        info = core.coq_props(pid) if ok else {'ok': False, 'closed': 0, 'axioms': [], 'theorems': [], 'prints': [], 'out': ''}
        if ok and not info['ok']:
            ctx.proof_failures.append('Props/%s.v: %s' % (pid, first_coq_error(info['out'])))
        if ok:
            bad = [a for a in info['axioms'] if a.split('.')[-1] not in core.ALLOWED_AXIOMS]
            if bad:
                ctx.proof_failures.append('theorems depend on axioms: ' + ', '.join(bad))
            missing = [t for t in info['theorems'] if t not in info['prints']]
            if missing:
                ctx.proof_failures.append('no Print Assumptions for: ' + ', '.join(missing))
            want = getattr(mod, 'THEOREMS', [])
            gone = [t for t in want if t not in info['theorems']]
            if gone:
                ctx.proof_failures.append('theorems missing from Props/%s.v: %s' % (pid, ', '.join(gone)))
        n = len(info['theorems']) or len(getattr(mod, 'THEOREMS', [])) or 1
        ctx.obligations = n
        ctx.discharged = n if (ok and info['ok'] and not ctx.proof_failures) else 0
        ctx.cov['theorems'] = info['theorems']
        ctx.cov['axioms'] = info['axioms']
        ctx.cov['closed_under_global_context'] = info['closed']
        if driver_ok:
            dok, dout = core.build_driver()
            if not dok:
                driver_ok = False
                ctx.proof_failures.append('extraction/driver build failed: ' + dout[-400:])
    return driver_ok


def verdict(ctx, mod):
    known = [f for f in core.load_known()['findings'] if f['property'] == ctx.pid and f.get('status') == 'known']
    known_ids = {f['id'] for f in known}
    new = [f for f in ctx.failing if f.get('kf') not in known_ids]
    seen = {f.get('kf') for f in ctx.failing if f.get('kf') in known_ids}
    for f in known:
        if f['id'] in seen:
            print('KNOWN-FINDING: property=%s %s [%s] witness=%s' % (ctx.pid, f['what'], f['id'], json.dumps(f.get('witness'))))
    viol = 0
    if new:
        viol = len(new)
        first = new[0]
        obj = {'property': ctx.pid, 'kind': 'failing-input', 'input': first.get('input'),
               'what': first.get('what'), 'observed': first.get('observed'), 'expected': first.get('expected'),
               'interface': first.get('interface'),
               'replay_cmd': './check %s --replay <this file>' % ctx.pid,
               'other_failing_inputs': [f.get('input') for f in new[1:6]],
               'proof_failures': ctx.proof_failures,
               'correspondence_disagreements': ctx.disagreements[:3]}
        p = core.replay_path(ctx.pid, obj)
        core.write_evidence(ctx, viol)
        print('VIOLATION property=%s replay=%s' % (ctx.pid, p))
        return 1
    if ctx.proof_failures or ctx.disagreements:
        viol = 1
        obj = {'property': ctx.pid, 'kind': 'no-failing-input-found',
               'proof_failures': ctx.proof_failures,
               'correspondence_disagreements': ctx.disagreements[:5],
               'explanation': 'the property is no longer shown to hold: a theorem, a translator or the '
                              'model/implementation correspondence no longer checks; the search on the '
                              'implementation found no input violating the property itself',
               'replay_cmd': './check %s --replay <this file>' % ctx.pid}
        p = core.replay_path(ctx.pid, obj)
        core.write_evidence(ctx, viol)
        print('VIOLATION property=%s replay=%s no-failing-input-found' % (ctx.pid, p))
        return 1
    core.write_evidence(ctx, 0)
    print('OK property=%s tier=%s obligations=%d discharged=%d evaluations=%d wall=%.1fs'
          % (ctx.pid, ctx.tier, ctx.obligations, ctx.discharged, ctx.cov.get('evaluations', 0),
             __import__('time').time() - ctx.t0))
    return 0


def main():
    ap = argparse.ArgumentParser()
    ap.add_argument('pid')
    ap.add_argument('--tier', default=os.environ.get('VERIF_TIER', 'quick'))
    ap.add_argument('--replay')
    ap.add_argument('--build-only', action='store_true')
    a = ap.parse_args()
    if a.pid == 'setup':
        return setup()
    seed = int(os.environ.get('VERIF_SEED', '20260930'))
    pid = a.pid.upper()
    mod = importlib.import_module('harness.props.' + pid.lower())
    ctx = core.Ctx(pid, 'thorough' if a.tier == 'thorough' else 'quick', seed)
    ctx.trusted = list(core.BASE_TRUSTED) + list(getattr(mod, 'TRUSTED', []))
    ctx.assumptions = list(getattr(mod, 'ASSUMPTIONS', []))
    driver_ok = build(ctx, mod)
    ctx.driver_ok = driver_ok
    if a.build_only:
        print(ctx.proof_failures)
        return 0
    if a.replay:
        obj = json.load(open(a.replay))
        if obj.get('kind') == 'no-failing-input-found' or obj.get('input') is None:
            # re-run the whole check: the replay names theorems / interfaces
            pass
        else:
            mod.replay(ctx, obj)
            return verdict(ctx, mod)
    try:
        mod.run(ctx)
    except Exception as e:
        ctx.proof_failures.append('check machinery raised %s: %s' % (type(e).__name__, str(e)[:300]))
        log(traceback.format_exc())
    return verdict(ctx, mod)


def setup():
    """MANIFEST.setup_cmd: regenerate everything, build every .vo, the driver"""
    ctx = core.Ctx('setup', 'quick', 0)
    gens = sorted(f[:-3] for f in os.listdir(os.path.join(core.ROOT, 'harness', 'gen'))
                  if f.endswith('.py') and not f.startswith('_'))
    with core.BuildLock():
        regen(gens, ctx)
        ok, out = core.coq_make(['all'])
        if not ok:
            print(out[-3000:])
        dok, dout = core.build_driver()
        if not dok:
            print(dout[-3000:])
    for f in ctx.proof_failures:
        print('setup:', f)
    print('setup', 'ok' if ok and dok else 'FAILED')
    return 0 if ok and dok else 1


if __name__ == '__main__':
    sys.exit(main())
