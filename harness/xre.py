"""X-re: every regenerated pattern through the Gallina matcher and through CPython's
`re` on pattern-derived and random strings; all spans and groups compared."""
import random

from harness import core
from harness.gen import gen_regex

ALPHA = list(' \t\n#=-`~.)(+*_|:\\<>/a1Zé []!"\'&;$x{}?@^%,0') + ['pre', 'script', 'div', 'http:', '\\\\', '  ', '```', '~~', '<!--', '-->', 'a@b.c', '&amp;', '&#12;', '{{m}}', '{{/m}}', '[[a|b]]', '$x$']


def strings_for(rng, pat, n):
    out = ['', '\n', ' ', pat.pattern[:20]]
    for _ in range(n):
        out.append(''.join(rng.choice(ALPHA) for _ in range(rng.randint(0, 14))))
    return out


def impl(pat, mode, text):
    def one(m):
        return [m.start(), m.end()] + [list(m.span(i)) for i in range(1, pat.groups + 1)]
    if mode == 0:
        return [one(m) for m in pat.finditer(text)]
    m = [None, pat.match, pat.fullmatch, pat.search][mode](text)
    return [one(m)] if m else []


def run(ctx, per_pattern=None):
    rng = ctx.rng
    per_pattern = per_pattern or (300 if ctx.quick() else 5000)
    idx = gen_regex.pattern_index()
    reqs, exp, meta = [], [], []
    for i, (name, pat) in enumerate(idx):
        for text in strings_for(rng, pat, per_pattern):
            for mode in (0, 1, 2, 3):
                reqs.append([30, i, mode, pat.groups, text])
                exp.append(impl(pat, mode, text))
                meta.append((name, mode, text))
    if not ctx.driver_ok:
        return
    res = core.model_map(reqs)
    bad = 0
    for (name, mode, text), e, m in zip(meta, exp, res):
        ctx.count('regex_evaluations')
        if m != e:
            bad += 1
            if bad <= 5:
                ctx.disagreements.append({'interface': 'X-re', 'input': {'pattern': name, 'mode(0 finditer,1 match,2 fullmatch,3 search)': mode, 'text': text},
                                          'model': m, 'impl': e})
    ctx.cov['regex_patterns'] = len(idx)
