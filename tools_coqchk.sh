#!/bin/bash
# developer helper (not a registered command): re-check the compiled development with Coq's independent checker.
#   ./tools_coqchk.sh            all Props modules and what they depend on, the kernel-sweep shards admitted   (~30 s)
#   ./tools_coqchk.sh sweeps     every kernel-sweep shard on its own with all it depends on, 10 at a time      (~15 min)
# works on a copy under a scratch directory so that a check rebuilding coq/ meanwhile cannot disturb it
set -e
S=$(mktemp -d /tmp/coqchk.XXXXXX)
rsync -a /verif/coq/ "$S"/
cd "$S"
HEAVY=$( (find theories/Proofs/Emph theories/Proofs/Indep theories/Proofs/ListLaw theories/Proofs/ProseSweep theories/Proofs/SpellSweep -name '*.vo'; echo theories/Proofs/SpecCorpus.vo; echo theories/Proofs/EmphBounded.vo) | sed "s|theories/|Mistletoe.|; s|/|.|g; s|\.vo$||")
if [ "$1" = sweeps ]; then
  echo "$HEAVY" | xargs -P 10 -I{} bash -c "coqchk -silent -o -Q theories Mistletoe {} > {}.chk 2>&1 && echo 'ok   {}' || echo 'FAIL {}'"
  grep -h -A3 'Axioms:' ./*.chk | sort | uniq -c
else
  ADM=$(echo "$HEAVY" | sed 's/^/-admit /' | tr '\n' ' ')
  PROPS=$(ls theories/Props/*.vo | sed 's|theories/|Mistletoe.|; s|/|.|g; s|\.vo$||' | tr '\n' ' ')
  coqchk -silent -o -Q theories Mistletoe $ADM $PROPS 2>&1 | tail -25
fi
cd /; rm -rf "$S"
